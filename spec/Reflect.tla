------------------------------ MODULE Reflect ------------------------------
(* Property C08, part 1: the reflection fixpoint of reflect.go, transcribed   *)
(* WITH its memoisation.                                                      *)
(*                                                                            *)
(*   recordReflection   (reflect.go:96-122)  = StartPass / EndPass            *)
(*   ignoreReflectedTypes (126-169)          = the member loop: Go map order,  *)
(*                                             i.e.  \E f \in todo : Visit(f)  *)
(*   checkFunction      (232-372)            = VisitResult                     *)
(*   recordArgReflected (377-444)            = what an argument "is": a        *)
(*                                             parameter of the caller, a      *)
(*                                             value of a concrete named type, *)
(*                                             or something without names      *)
(*   computePkgCache    (cache_pkg.go:163-169, 203) = seed APIs, callee 0      *)
(*                                                                            *)
(* A shape is a small call graph: function 1 is the root (no parameters, it   *)
(* creates the values), callee 0 stands for a seed API whose parameter 0 is   *)
(* reflected (reflect.TypeOf / reflect.ValueOf / an inherited API such as     *)
(* encoding/json.Marshal).  Parameter indexes are 0-based as in the code.     *)
(*                                                                            *)
(* Part 2 (bottom of the module): the struct-shape / package-layout / flow    *)
(* cells that the harness turns into one batched multi-package Go program.    *)
EXTENDS Integers, Sequences, FiniteSets, TLC, Json, SequencesExt

CONSTANTS NHand,      \* explore rows 1..NHand of the hand-written shape table
          GenLo, GenHi,\* and rows GenLo..GenHi of the generated family (empty if GenHi < GenLo)
          PickGen,    \* generated rows for which the fixed-order table is emitted
          EmitTable,  \* TRUE: serialise reflect_table.json (B2/B3 binding)
          EmitLoss,   \* TRUE: print one LOSS line per incomplete terminal state
          Repair,     \* FALSE: the algorithm as it is in reflect.go; TRUE: the proposed repair of F6 (see below)
          OrderIds,   \* the fixed orders emitted per shape: permutation number (j % n!) for j \in OrderIds
          TraceLen,   \* passes recorded per fixed order (forced continuation, see RunForced)
          CellK       \* layout cells with at most CellK non-default coordinates

-----------------------------------------------------------------------------
(* Shapes *)

P(i) == [k |-> "p", v |-> i]     \* parameter i of the calling function is passed on
T(t) == [k |-> "t", v |-> t]     \* a value of the concrete named struct type t is passed
X    == [k |-> "x", v |-> 0]     \* a value without names (an int constant)
C(f, g, args) == [f |-> f, g |-> g, args |-> args]

(* name, parameter count per function, calls in source order *)
Hand == <<
  [id |-> "direct",      np |-> <<0>>,          calls |-> << C(1,0,<<T(1)>>) >>],
  [id |-> "helper",      np |-> <<0,1>>,        calls |-> << C(1,2,<<T(1)>>), C(2,0,<<P(0)>>) >>],
  [id |-> "chain4",      np |-> <<0,1,1,1,1>>,  calls |-> << C(1,2,<<T(1)>>), C(2,3,<<P(0)>>), C(3,4,<<P(0)>>), C(4,5,<<P(0)>>), C(5,0,<<P(0)>>) >>],
  (* F6: outer(a, b) { innerA(a); mid(b) }  mid(b) { innerB(b) } *)
  [id |-> "f6",          np |-> <<0,2,1,1,1>>,  calls |-> << C(1,2,<<T(1),T(2)>>), C(2,4,<<P(0)>>), C(2,3,<<P(1)>>), C(3,5,<<P(0)>>), C(4,0,<<P(0)>>), C(5,0,<<P(0)>>) >>],
  [id |-> "f6-swapped",  np |-> <<0,2,1,1,1>>,  calls |-> << C(1,2,<<T(1),T(2)>>), C(2,4,<<P(1)>>), C(2,3,<<P(0)>>), C(3,5,<<P(0)>>), C(4,0,<<P(0)>>), C(5,0,<<P(0)>>) >>],
  [id |-> "two-equal",   np |-> <<0,2,1,1>>,    calls |-> << C(1,2,<<T(1),T(2)>>), C(2,3,<<P(0)>>), C(2,4,<<P(1)>>), C(3,0,<<P(0)>>), C(4,0,<<P(0)>>) >>],
  [id |-> "seed-and-hop",np |-> <<0,2,1>>,      calls |-> << C(1,2,<<T(1),T(2)>>), C(2,0,<<P(0)>>), C(2,3,<<P(1)>>), C(3,0,<<P(0)>>) >>],
  [id |-> "both-direct", np |-> <<0,2>>,        calls |-> << C(1,2,<<T(1),T(2)>>), C(2,0,<<P(0)>>), C(2,0,<<P(1)>>) >>],
  [id |-> "second-only", np |-> <<0,2>>,        calls |-> << C(1,2,<<T(1),T(2)>>), C(2,0,<<P(1)>>) >>],
  [id |-> "cross",       np |-> <<0,2,2>>,      calls |-> << C(1,2,<<T(1),T(2)>>), C(2,3,<<P(1),P(0)>>), C(3,0,<<P(0)>>) >>],
  [id |-> "same-target", np |-> <<0,2,1>>,      calls |-> << C(1,2,<<T(1),T(2)>>), C(2,3,<<P(0)>>), C(2,3,<<P(1)>>), C(3,0,<<P(0)>>) >>],
  [id |-> "forward-both",np |-> <<0,2,2,1>>,    calls |-> << C(1,2,<<T(1),T(2)>>), C(2,3,<<P(0),P(1)>>), C(3,0,<<P(0)>>), C(3,4,<<P(1)>>), C(4,0,<<P(0)>>) >>],
  [id |-> "diamond",     np |-> <<0,1,1,1,1>>,  calls |-> << C(1,2,<<T(1)>>), C(2,3,<<P(0)>>), C(2,4,<<P(0)>>), C(3,5,<<P(0)>>), C(4,5,<<P(0)>>), C(5,0,<<P(0)>>) >>],
  [id |-> "self-rec",    np |-> <<0,1>>,        calls |-> << C(1,2,<<T(1)>>), C(2,2,<<P(0)>>), C(2,0,<<P(0)>>) >>],
  [id |-> "self-rec-swap",np |-> <<0,2>>,       calls |-> << C(1,2,<<T(1),T(2)>>), C(2,2,<<P(1),P(0)>>), C(2,0,<<P(0)>>) >>],
  [id |-> "mutual-rec",  np |-> <<0,1,1>>,      calls |-> << C(1,2,<<T(1)>>), C(2,3,<<P(0)>>), C(3,2,<<P(0)>>), C(3,0,<<P(0)>>) >>],
  [id |-> "two-callers", np |-> <<0,1,1,1>>,    calls |-> << C(1,2,<<T(1)>>), C(1,3,<<T(2)>>), C(2,4,<<P(0)>>), C(3,4,<<P(0)>>), C(4,0,<<P(0)>>) >>],
  [id |-> "inner-value", np |-> <<0,1,0>>,      calls |-> << C(1,2,<<T(1)>>), C(1,3,<< >>), C(2,0,<<P(0)>>), C(3,2,<<T(2)>>) >>],
  [id |-> "unreflected", np |-> <<0,2>>,        calls |-> << C(1,2,<<T(1),T(2)>>), C(2,0,<<P(0)>>) >>],
  [id |-> "two-values",  np |-> <<0,1>>,        calls |-> << C(1,2,<<T(1)>>), C(1,2,<<T(2)>>), C(1,2,<<X>>), C(2,0,<<P(0)>>) >>],
  [id |-> "three-types", np |-> <<0,2,1,1>>,    calls |-> << C(1,2,<<T(1),T(2)>>), C(1,2,<<T(3),T(1)>>), C(2,3,<<P(0)>>), C(2,4,<<P(1)>>), C(3,0,<<P(0)>>), C(4,3,<<P(0)>>) >>],
  [id |-> "late-chain",  np |-> <<0,2,1,1,1>>,  calls |-> << C(1,2,<<T(1),T(2)>>), C(2,0,<<P(0)>>), C(2,3,<<P(1)>>), C(3,4,<<P(0)>>), C(4,5,<<P(0)>>), C(5,0,<<P(0)>>) >>],
  [id |-> "late-feeds",  np |-> <<0,2,2,1>>,    calls |-> << C(1,2,<<T(1),T(2)>>), C(2,3,<<P(0),P(1)>>), C(3,0,<<P(0)>>), C(3,4,<<P(1)>>), C(4,3,<<P(0),X>>) >>],
  [id |-> "mid-values",  np |-> <<0,2,1,1>>,    calls |-> << C(1,2,<<X,T(2)>>), C(2,3,<<P(0)>>), C(2,3,<<T(1)>>), C(2,4,<<P(1)>>), C(3,0,<<P(0)>>), C(4,3,<<P(0)>>) >>]
>>

(* The generated family: root, h1(a, b), h2(a), h3(a), h4(a); the root calls  *)
(* h1(T1, T2); each of the five parameters flows to exactly one target:       *)
(* 0 nowhere, 1 the seed, 2 h1.a, 3 h1.b, 4 h2.a, 5 h3.a, 6 h4.a.             *)
GenSlots == << <<2,0>>, <<2,1>>, <<3,0>>, <<4,0>>, <<5,0>> >>   \* (function, parameter)
GenDigit(n, i) == (n \div (7 ^ (i - 1))) % 7
GenCall(f, p, d) ==
  CASE d = 1 -> C(f, 0, <<P(p)>>)
    [] d = 2 -> C(f, 2, <<P(p), X>>)
    [] d = 3 -> C(f, 2, <<X, P(p)>>)
    [] OTHER -> C(f, d - 1, <<P(p)>>)
GenCalls(n) == [i \in 1..5 |-> IF GenDigit(n, i) = 0 THEN <<>>
                              ELSE <<GenCall(GenSlots[i][1], GenSlots[i][2], GenDigit(n, i))>>]
GenShape(n) ==
  [id |-> "g" \o ToString(n), np |-> <<0,2,1,1,1>>,
   calls |-> <<C(1,2,<<T(1),T(2)>>)>> \o GenCalls(n)[1] \o GenCalls(n)[2] \o GenCalls(n)[3] \o GenCalls(n)[4] \o GenCalls(n)[5]]

-----------------------------------------------------------------------------
(* The least fixpoint of the flow rules, stated independently of the algorithm *)
(*   reflected(seed, 0)                                                        *)
(*   reflected(g, k) /\ call c in f to g /\ c.args[k] = param i of f  =>  reflected(f, i) *)
(*   reflected(g, k) /\ call c to g      /\ c.args[k] = value of type T  =>  T keeps its names *)

ArgAt(c, k) == c.args[k + 1]
CallSet(s) == {s.calls[i] : i \in DOMAIN s.calls}
Flow1(cs, R) ==
  R \cup UNION {{<<c.f, ArgAt(c, k).v>> : k \in {j \in 0..(Len(c.args) - 1) : <<c.g, j>> \in R /\ ArgAt(c, j).k = "p"}} : c \in cs}
RECURSIVE LfpFrom(_, _)
LfpFrom(cs, R) == LET n == Flow1(cs, R) IN IF n = R THEN R ELSE LfpFrom(cs, n)
LfpParams(s) == LfpFrom(CallSet(s), {<<0, 0>>})
LfpApisOf(s, R) == [g \in 0..Len(s.np) |-> {p[2] : p \in {q \in R : q[1] = g}}]
LfpNamesOf(s, R) ==
  UNION {{ArgAt(c, k).v : k \in {j \in 0..(Len(c.args) - 1) : <<c.g, j>> \in R /\ ArgAt(c, j).k = "t"}} : c \in CallSet(s)}

(* a shape with everything that is needed repeatedly computed once *)
Annot(s) ==
  LET R == LfpParams(s) IN
  [id |-> s.id, np |-> s.np, calls |-> s.calls,
   byf |-> [f \in 1..Len(s.np) |-> {c \in CallSet(s) : c.f = f}],
   lfpn |-> LfpNamesOf(s, R), lfpa |-> LfpApisOf(s, R)]

ShapeSet == {Annot(Hand[i]) : i \in 1..NHand} \cup {Annot(GenShape(n)) : n \in GenLo..GenHi}

-----------------------------------------------------------------------------
(* The algorithm (s is an annotated shape) *)

Funcs(s) == 1..Len(s.np)
A0(s) == [g \in 0..Len(s.np) |-> IF g = 0 THEN {0} ELSE {}]    \* computePkgCache's initial table
Known(A) == {g \in DOMAIN A : A[g] # {}}                          \* keys of the ReflectAPIs map
RECURSIVE SumCard(_, _)
SumCard(A, D) == IF D = {} THEN 0 ELSE LET g == CHOOSE x \in D : TRUE IN Cardinality(A[g]) + SumCard(A, D \ {g})

(* Proposed repair of F6 (Repair = TRUE), a change of three lines in reflect.go:        *)
(*   - checkedAPIs remembers WITH HOW MANY reflected parameters an API's call sites were  *)
(*     checked (map[string]int); a call is skipped only if the callee still has that many; *)
(*   - the APIs to memoise at the end of a pass are those whose current parameter count    *)
(*     differs from the memoised one, with the count at the START of the pass;             *)
(*   - the termination test counts parameters, not map entries.                            *)
Entries(A) == IF Repair THEN {<<g, Cardinality(A[g])>> : g \in Known(A)} ELSE Known(A)
Memoised(A, Ck, g) == IF Repair THEN <<g, Cardinality(A[g])>> \in Ck ELSE g \in Ck
Done(A, N) == (IF Repair THEN SumCard(A, DOMAIN A) ELSE Cardinality(Known(A))) + Cardinality(N)
                                                                  \* len(ReflectAPIs)+len(ReflectObjectNames)

(* checkFunction(f) with checkedAPIs = Ck: calls to memoised callees are      *)
(* skipped; for every known reflected parameter k of the callee the k-th      *)
(* argument is recorded: a concrete type is added to the names, a parameter   *)
(* of f joins f's own reflected parameters (written back at the end).         *)
VisitResult(s, f, A, N, Ck) ==
  LET live == {c \in s.byf[f] : ~Memoised(A, Ck, c.g)}
      hits == UNION {{<<c, k>> : k \in {j \in A[c.g] : j < Len(c.args)}} : c \in live}
      newN == {ArgAt(h[1], h[2]).v : h \in {x \in hits : ArgAt(x[1], x[2]).k = "t"}}
      newP == {ArgAt(h[1], h[2]).v : h \in {x \in hits : ArgAt(x[1], x[2]).k = "p"}}
  IN  <<[A EXCEPT ![f] = @ \cup newP], N \cup newN>>

VARIABLES shape, apis, names, checked, notChecked, todo, prevDone, phase, pass, hist, late
vars == <<shape, apis, names, checked, notChecked, todo, prevDone, phase, pass, hist, late>>
view == <<shape.id, apis, names, checked, notChecked, todo, prevDone, phase, late>>

Init ==
  /\ shape \in ShapeSet
  /\ apis = A0(shape) /\ names = {} /\ checked = {}
  /\ notChecked = Entries(A0(shape)) /\ prevDone = Done(A0(shape), {})
  /\ todo = Funcs(shape) /\ phase = "visit" /\ pass = 1 /\ hist = << <<>> >> /\ late = FALSE

(* one iteration of `for _, memb := range ssaPkg.Members` *)
Visit(f) ==
  /\ phase = "visit" /\ f \in todo
  /\ LET r == VisitResult(shape, f, apis, names, checked)
     IN /\ apis' = r[1] /\ names' = r[2]
        /\ late' = (late \/ (apis[f] # {} /\ r[1][f] # apis[f]))   \* a param set grew after it was first recorded
  /\ todo' = todo \ {f}
  /\ hist' = [hist EXCEPT ![Len(hist)] = Append(@, f)]
  /\ UNCHANGED <<shape, checked, notChecked, prevDone, phase, pass>>

(* the tail of recordReflection: memoise, test for growth, recurse *)
EndPass ==
  /\ phase = "visit" /\ todo = {}
  /\ checked' = checked \cup notChecked
  /\ IF Done(apis, names) > prevDone
     THEN /\ notChecked' = Entries(apis) \ (checked \cup notChecked)
          /\ prevDone' = Done(apis, names)
          /\ todo' = Funcs(shape) /\ pass' = pass + 1 /\ hist' = Append(hist, <<>>)
          /\ UNCHANGED phase
     ELSE /\ phase' = "done"
          /\ UNCHANGED <<notChecked, prevDone, todo, pass, hist>>
  /\ UNCHANGED <<shape, apis, names, late>>

Next == (\E f \in todo : Visit(f)) \/ EndPass
Spec == Init /\ [][Next]_vars

-----------------------------------------------------------------------------
(* The same algorithm as constant-level operators for ONE order used in every *)
(* pass (what `garble verif reflect -order=list:...` replays).                *)

RECURSIVE VisitSeq(_, _, _, _, _)
VisitSeq(s, ord, A, N, Ck) ==
  IF ord = <<>> THEN <<A, N>>
  ELSE LET r == VisitResult(s, Head(ord), A, N, Ck) IN VisitSeq(s, Tail(ord), r[1], r[2], Ck)

RECURSIVE RunFixedFrom(_, _, _, _, _, _)
RunFixedFrom(s, ord, A, N, Ck, p) ==
  LET nc == Entries(A) \ Ck
      o == VisitSeq(s, ord, A, N, Ck)
  IN IF Done(o[1], o[2]) > Done(A, N) THEN RunFixedFrom(s, ord, o[1], o[2], Ck \cup nc, p + 1)
     ELSE [order |-> ord, apis |-> o[1], names |-> o[2], passes |-> p]
RunFixed(s, ord) == RunFixedFrom(s, ord, A0(s), {}, {}, 1)

(* Several shapes in ONE package only interact through the termination test:  *)
(* another pass runs iff something grew ANYWHERE in the package.  So inside a  *)
(* bigger package a shape goes through exactly the states of RunForced: the   *)
(* same passes, continued regardless of its own growth; the package stops     *)
(* after the first pass in which no shape grew.  (Alone, the shape stops      *)
(* after its first pass with grew = FALSE.)                                   *)
ApiRows(A) == [g \in DOMAIN A |-> SetToSeq(A[g])]
RECURSIVE RunForcedFrom(_, _, _, _, _, _)
RunForcedFrom(s, ord, A, N, Ck, n) ==
  IF n = 0 THEN <<>>
  ELSE LET nc == Entries(A) \ Ck
           o == VisitSeq(s, ord, A, N, Ck)
       IN <<[apis |-> ApiRows(o[1]), names |-> SetToSeq(o[2]), grew |-> Done(o[1], o[2]) > Done(A, N)]>> \o
          RunForcedFrom(s, ord, o[1], o[2], Ck \cup nc, n - 1)
RunForced(s, ord) == RunForcedFrom(s, ord, A0(s), {}, {}, TraceLen)

-----------------------------------------------------------------------------
(* Invariants *)

TypeOK ==
  /\ phase \in {"visit", "done"}
  /\ todo \subseteq Funcs(shape)
  /\ (~Repair => checked \subseteq DOMAIN apis /\ notChecked \subseteq DOMAIN apis)
  /\ \A g \in DOMAIN apis : apis[g] \subseteq 0..1

(* never records more than the flow rules justify *)
Sound == names \subseteq shape.lfpn /\ \A g \in DOMAIN apis : apis[g] \subseteq shape.lfpa[g]

(* every pass but the last adds a map entry, so the number of passes is bounded *)
PassBound == pass <= 2 * Len(shape.np) + 4

CompleteState == names = shape.lfpn /\ apis = shape.lfpa

(* EXPECTED TO FAIL on the unchanged tree (finding F6): leads, replayed on the real code *)
Complete == phase = "done" => CompleteState
OrderIndependent == phase = "done" =>
   LET r == RunFixed(shape, [i \in 1..Len(shape.np) |-> i]) IN apis = r.apis /\ names = r.names
(* the API table alone is also order dependent: a pass that only grows a      *)
(* parameter set does not grow len(ReflectAPIs), so the loop can stop early   *)
ApisComplete == phase = "done" => apis = shape.lfpa

(* The only way the model loses something: some function's reflected-param   *)
(* set grew after it had first been recorded (so that it could be memoised,   *)
(* or the loop could stop, with the smaller set).  This is what makes the     *)
(* known-finding matcher specific.                                            *)
LossNeedsLateGrowth == (phase = "done" /\ ~CompleteState) => late

(* the state machine and the constant-level transcription agree: a behaviour  *)
(* that used the same order in every pass ends where RunFixed says            *)
FixedAgrees == (phase = "done" /\ \A i \in DOMAIN hist : hist[i] = hist[1]) =>
   LET r == RunFixed(shape, hist[1]) IN apis = r.apis /\ names = r.names /\ pass = r.passes

(* one line per incomplete terminal state (distinct modulo VIEW) for the harness *)
LossLine == (EmitLoss /\ phase = "done" /\ names # shape.lfpn) =>
               PrintT(<<"LOSS", shape.id, shape.lfpn \ names, hist>>)

-----------------------------------------------------------------------------
(* Table extraction *)

Row(s0) ==
  LET s == Annot(s0)
      ps == SetToSeq(SetToSeqs(Funcs(s)))
  IN [id |-> s.id, np |-> s.np, calls |-> s.calls,
      lfp_names |-> SetToSeq(s.lfpn), lfp_apis |-> ApiRows(s.lfpa),
      nperms |-> Len(ps),
      fixed |-> LET idx == SetToSeq({(j % Len(ps)) + 1 : j \in OrderIds}) IN
                  [k \in DOMAIN idx |-> [pi |-> idx[k] - 1, order |-> ps[idx[k]], trace |-> RunForced(s, ps[idx[k]])]]]
AllShapes == [i \in 1..NHand |-> Hand[i]] \o SetToSeq({GenShape(n) : n \in PickGen})
ShapeTable == IF EmitTable THEN [i \in DOMAIN AllShapes |-> Row(AllShapes[i])] ELSE <<>>

-----------------------------------------------------------------------------
(* Part 2: struct-shape / layout / flow cells.                                *)
(* A cell fixes: the package that declares the type, the package where the   *)
(* value is created (site), how the reflecting API is reached from the site,  *)
(* the Go construct the value is wrapped in, the shape of the type and the    *)
(* API.  The first element of every list is the default coordinate.           *)

Decls  == <<"main", "lib", "deep">>                 \* main imports lib and deep, lib imports deep
Sites  == <<"main", "lib">>
Vias   == <<"direct", "helper", "foreign", "closure">>   \* API called at the site / by a helper of the site's
                                                    \* package / by an exported helper of a dependency / inside a
                                                    \* function literal of the site that captures the value (function
                                                    \* literals are not package members: checkFunction must descend
                                                    \* into fun.AnonFuncs, and the captured value is an ssa.FreeVar -
                                                    \* finding F62)
Conss  == <<"value", "ptr", "slice", "variadic", "field", "iface-any", "iface-method", "array", "map",
            "iface-field-store", "convert">>
                                                    \* field: the value travels in a field of a struct that a helper
                                                    \* fills from its parameter and hands to the reflecting function;
                                                    \* iface-any / iface-method: held in a variable of type any /
                                                    \* of an interface type with a method before it is passed;
                                                    \* iface-field-store: stored into an interface-typed field of a
                                                    \* struct value that is then marshalled (checkFunction's Store
                                                    \* rule, which fires on a later pass of the fixpoint);
                                                    \* convert: converted from a struct type with the same underlying
                                                    \* type right at the call (the ChangeType rule, later pass too)
TShapes == <<"plain", "nested", "embedded", "ptrfield", "slicefield", "mapfield", "arrayfield",
             "anon", "generic", "alias", "defined", "embedded-ptr", "nested2">>
Apis   == <<"typeof", "valueof", "marshal", "unmarshal">>

CellSpace == [decl : ToSet(Decls), site : ToSet(Sites), via : ToSet(Vias), cons : ToSet(Conss),
              tshape : ToSet(TShapes), api : ToSet(Apis)]

Imports(p, q) == p = q \/ (p = "main" /\ q \in {"lib", "deep"}) \/ (p = "lib" /\ q = "deep")

Applicable(c) ==
  /\ Imports(c.site, c.decl)                                  \* the site must be able to name the type
  /\ (c.cons \in {"variadic", "field"} => c.via \notin {"direct", "closure"})   \* these flows need a helper function
  /\ (c.api = "unmarshal" => c.cons \in {"value", "ptr", "iface-any"})       \* needs a pointer to one value
  /\ (c.tshape = "defined" => c.api \in {"typeof", "valueof"})  \* a defined int has no JSON keys
  /\ (c.cons = "iface-field-store" => c.api = "marshal" /\ c.tshape # "defined")   \* only marshalling looks inside the field
  /\ (c.cons = "convert" => c.tshape = "plain" /\ c.decl = c.site /\ c.api # "unmarshal")

NonDefault(c) ==
  (IF c.decl # Decls[1] THEN 1 ELSE 0) + (IF c.site # Sites[1] THEN 1 ELSE 0) + (IF c.via # Vias[1] THEN 1 ELSE 0) +
  (IF c.cons # Conss[1] THEN 1 ELSE 0) + (IF c.tshape # TShapes[1] THEN 1 ELSE 0) + (IF c.api # Apis[1] THEN 1 ELSE 0)

Cells == {c \in CellSpace : Applicable(c) /\ NonDefault(c) <= CellK}

(* What must keep its original name at run time: everything reachable. The    *)
(* package that performs the analysis of the API call is where the API is     *)
(* called; the names reach main's table only through the cache merge          *)
(* (computePkgCache / CopyFrom) when that package is not main.                *)
ApiPkg(c) == IF c.via = "foreign" THEN (IF c.site = "main" THEN "lib" ELSE "deep") ELSE c.site
NeedsMerge(c) == ApiPkg(c) # "main" \/ c.site # "main"
CellRow(c) == [decl |-> c.decl, site |-> c.site, via |-> c.via, cons |-> c.cons, tshape |-> c.tshape, api |-> c.api,
               api_pkg |-> ApiPkg(c), needs_merge |-> NeedsMerge(c), expect |-> "all-names-kept"]

CellTable == IF EmitTable THEN SetToSeq({CellRow(c) : c \in Cells}) ELSE <<>>

(* every reflected type of a cell is named by the site and the API package is *)
(* the site's package or one of its dependencies                              *)
ASSUME \A c \in Cells : Imports(c.site, ApiPkg(c)) /\ Imports(c.site, c.decl)

ASSUME EmitTable => JsonSerialize("reflect_table.json",
          [shapes |-> ShapeTable, cells |-> CellTable])
=============================================================================
