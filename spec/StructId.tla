----------------------------- MODULE StructId -----------------------------
(* Struct identity versus garble's struct salt (property C15).               *)
(*                                                                          *)
(* A struct SHAPE is a sequence of fields                                    *)
(*    [name, emb, typ, tag]                                                  *)
(* name : a key of NameBytes (the real bytes of the identifier)              *)
(* emb  : embedded field (then the name IS the name of the field's type)     *)
(* typ  : a code of a small type language                                    *)
(*          "int" "string" "*int" "[]string"    closed types                 *)
(*          "N" "*N"                            a named type / pointer to it *)
(*          "P" "[]P" "*P"                      the type parameter of the    *)
(*                                              generic declaration          *)
(*          "E" "*E"                            only for embedded fields: the*)
(*                                              named type called like the   *)
(*                                              field / a pointer to it      *)
(* tag  : "none" | "t1" | "t2"                                               *)
(*                                                                          *)
(* Identical(s, t) is the Go specification's identity of struct types;       *)
(* IdenticalIgnoringTags is what the property quantifies over (and what      *)
(* conversions between struct types use).  A shape that mentions P is the    *)
(* ORIGIN of a generic type; Closed(s, a) is its instantiation with P := a.  *)
(*                                                                          *)
(* Salt(s) transcribes the *types.Struct case of garble's bundled hasher     *)
(* (bundled_typeutil.go) with real 32-bit arithmetic: a uint32 is a pair     *)
(* <<hi16, lo16>> because TLC's integers are 32-bit signed.                  *)
(* typeutil_hashString is transcribed byte by byte (h ^= c; h *= 16777619).  *)
(* hashWithStruct then derives the field name from (salt, [seed|garble       *)
(* inputs], field name); that last step (sha256) is abstracted as the pair   *)
(* <<salt, name>>, i.e. assumed collision free.                              *)
(*                                                                          *)
(* HashTags / HashTypes model the two mutants of DESIGN.md 9b (re-enabling   *)
(* the two commented-out lines of the hasher); both are FALSE for the code   *)
(* as it is.                                                                 *)
EXTENDS Naturals, Sequences, FiniteSets, TLC, Json, SequencesExt, Bitwise

CONSTANTS
  NameTexts,   \* field-name alphabet: keys of NameBytes
  PlainTypes,  \* type codes allowed for ordinary fields
  EmbTypes,    \* type codes allowed for embedded fields: subset of {"E", "*E"}
  Tags,        \* subset of {"none", "t1", "t2"}
  MaxFields,
  TypeArg,     \* the closed type P is instantiated with
  HashTags,    \* BOOLEAN: mutant "hash += hashString(t.Tag(i))"
  HashTypes,   \* BOOLEAN: mutant "hash += h.hash(f.Type())"
  TableFile    \* file name for the exported table ("" = no export)

NameBytes == [Aa |-> <<65, 97>>, Bb |-> <<66, 98>>, Cc |-> <<67, 99>>, cc |-> <<99, 99>>,
              Dd |-> <<68, 100>>, x |-> <<120>>]
Exported(n) == NameBytes[n][1] \in 65..90

(* ------------------------------------------------------------ uint32 as <<hi, lo>> *)
W == 65536
U32(n) == <<(n \div W) % W, n % W>>
Add32(a, b) == LET lo == a[2] + b[2]
                   hi == a[1] + b[1] + (lo \div W)
               IN <<hi % W, lo % W>>
MulSmall32(k, a) == LET lo == k * a[2]              \* k < 2^14
                        hi == k * a[1] + (lo \div W)
                    IN <<hi % W, lo % W>>
(* a * 16777619 mod 2^32;  16777619 = 256 * 2^16 + 403 *)
MulPrime32(a) == LET lo == a[2] * 403
                     hi == a[1] * 403 + (lo \div W) + ((a[2] * 256) % W)
                 IN <<hi % W, lo % W>>
XorByte32(a, c) == <<a[1], a[2] ^^ c>>

(* typeutil_hashString: for i := 0; i < len(s); i++ { h ^= uint32(s[i]); h *= 16777619 } *)
RECURSIVE HashBytes(_, _, _)
HashBytes(bs, i, h) == IF i > Len(bs) THEN h ELSE HashBytes(bs, i + 1, MulPrime32(XorByte32(h, bs[i])))
HashString == [n \in NameTexts |-> HashBytes(NameBytes[n], 1, <<0, 0>>)]

(* ------------------------------------------------------------ shapes *)
FieldsOf(n) == {[name |-> n, emb |-> FALSE, typ |-> ty, tag |-> tg] : ty \in PlainTypes, tg \in Tags}
               \cup {[name |-> n, emb |-> TRUE, typ |-> ty, tag |-> tg] : ty \in EmbTypes, tg \in Tags}
AllFields == UNION {FieldsOf(n) : n \in NameTexts}

RECURSIVE ShapesOfLen(_)
ShapesOfLen(k) == IF k = 0 THEN {<<>>}
                  ELSE {Append(p, f) : p \in ShapesOfLen(k - 1), f \in AllFields}
(* Go: the field names of one struct type are distinct *)
DistinctNames(s) == \A i, j \in 1..Len(s) : i # j => s[i].name # s[j].name
Shapes == UNION {{s \in ShapesOfLen(k) : DistinctNames(s)} : k \in 0..MaxFields}

ParamTypes == {"P", "[]P", "*P"}
IsGeneric(s) == \E i \in 1..Len(s) : s[i].typ \in ParamTypes
Inst(ty) == CASE ty = "P" -> TypeArg
              [] ty = "[]P" -> "[]" \o TypeArg
              [] ty = "*P" -> "*" \o TypeArg
              [] OTHER -> ty
(* the instantiation of a generic origin (the identity on closed shapes) *)
Closed(s) == [i \in 1..Len(s) |-> [s[i] EXCEPT !.typ = Inst(@)]]

(* ------------------------------------------------------------ the Go specification *)
(* "Two struct types are identical if they have the same sequence of fields, and if  *)
(*  corresponding pairs of fields have the same names, identical types, and          *)
(*  identical tags, and are either both embedded or both not embedded."              *)
(* (types are closed here, so identical types = equal codes; all shapes of one      *)
(*  table live in one package, so unexported names compare by text)                  *)
Identical(s, t) ==
  /\ Len(s) = Len(t)
  /\ \A i \in 1..Len(s) : /\ s[i].name = t[i].name
                          /\ s[i].typ = t[i].typ
                          /\ s[i].tag = t[i].tag
                          /\ s[i].emb = t[i].emb
IdenticalIgnoringTags(s, t) ==
  /\ Len(s) = Len(t)
  /\ \A i \in 1..Len(s) : /\ s[i].name = t[i].name
                          /\ s[i].typ = t[i].typ
                          /\ s[i].emb = t[i].emb
(* class key: the closed shape without its tags *)
Canon(s) == [i \in 1..Len(s) |-> <<s[i].name, s[i].emb, Inst(s[i].typ)>>]

(* ------------------------------------------------------------ garble's hasher *)
(* abstract codes of the parts the real hasher ignores (only used by the mutants) *)
TypeCode(ty) == CASE ty = "int" -> 2 [] ty = "string" -> 17 [] ty = "*int" -> 9071 [] ty = "*string" -> 9101
                  [] ty = "[]string" -> 9083 [] ty = "[]int" -> 9053 [] ty = "N" -> 7001 [] ty = "*N" -> 23069
                  [] ty = "E" -> 7013 [] ty = "*E" -> 23093 [] ty = "P" -> 9173 [] ty = "[]P" -> 27395
                  [] ty = "*P" -> 27413 [] OTHER -> 1
TagCode(tg) == CASE tg = "none" -> 0 [] tg = "t1" -> 40503 [] tg = "t2" -> 52711 [] OTHER -> 1

(*  case *types.Struct:                                                        *)
(*      var hash uint32 = 9059                                                 *)
(*      for i, n := 0, t.NumFields(); i < n; i++ {                             *)
(*          f := t.Field(i)                                                    *)
(*          if f.Anonymous() { hash += 8861 }                                  *)
(*          // hash += typeutil_hashString(t.Tag(i))        (HashTags)         *)
(*          // hash += h.hash(f.Type())                     (HashTypes)        *)
(*          hash += (1 + uint32(i)) * typeutil_hashString(f.Name())            *)
(*      }                                                                      *)
RECURSIVE SaltFrom(_, _, _)
SaltFrom(s, i, h) ==
  IF i > Len(s) THEN h
  ELSE LET f == s[i]
           h1 == IF f.emb THEN Add32(h, U32(8861)) ELSE h
           h2 == IF HashTags THEN Add32(h1, U32(TagCode(f.tag))) ELSE h1
           h3 == IF HashTypes THEN Add32(h2, U32(TypeCode(f.typ))) ELSE h2
           h4 == Add32(h3, MulSmall32(i, HashString[f.name]))     \* i is 1-based here = 1 + uint32(i)
       IN SaltFrom(s, i + 1, h4)
Salt(s) == SaltFrom(s, 1, U32(9059))

(* computeFieldToStruct records ORIGIN fields only, so the struct handed to  *)
(* hashWithStruct for a field of an instantiation is the origin struct.      *)
ObfName(s, i) == <<Salt(s), s[i].name>>
FieldNames(s) == [i \in 1..Len(s) |-> ObfName(s, i)]

(* ------------------------------------------------------------ state space: all unordered pairs *)
ShapeSeq == SetToSeq(Shapes)
NShapes == Len(ShapeSeq)

(* i picks the first shape (initial states); the only action picks the second one,   *)
(* j >= i: every invariant below is symmetric in the two shapes.                      *)
\* (named ix/jx: TLC identifies state variables by name, and a bound variable called
\* like a state variable makes a constant definition look state-dependent, which
\* defeats the one-time evaluation of ShapeSeq)
VARIABLES ix, jx
vars == <<ix, jx>>
Init == ix \in 1..NShapes /\ jx = 0
Next == jx = 0 /\ jx' \in ix..NShapes /\ ix' = ix
Spec == Init /\ [][Next]_vars

(* per-shape data, evaluated once *)
ClosedSeq == [k \in 1..NShapes |-> Closed(ShapeSeq[k])]
CanonSeq == [k \in 1..NShapes |-> Canon(ShapeSeq[k])]
SaltSeq == [k \in 1..NShapes |-> Salt(ShapeSeq[k])]
NamesSeq == [k \in 1..NShapes |-> FieldNames(ShapeSeq[k])]

IdenticalImpliesSameSalt ==
  jx = 0 \/ (IdenticalIgnoringTags(ClosedSeq[ix], ClosedSeq[jx]) =>
               /\ SaltSeq[ix] = SaltSeq[jx]
               /\ NamesSeq[ix] = NamesSeq[jx])

(* an instantiation hashed directly (e.g. the anonymous struct{F Q} a generic function  *)
(* returns, seen by a consumer as struct{F int}) gets the salt of its origin            *)
OriginRule == jx # 0 \/ SaltSeq[ix] = Salt(ClosedSeq[ix])

SpecIdentityRefines ==
  jx = 0 \/ (Identical(ClosedSeq[ix], ClosedSeq[jx]) => IdenticalIgnoringTags(ClosedSeq[ix], ClosedSeq[jx]))

(* the class key used by the exported table is sound and complete *)
ClassKeySound ==
  jx = 0 \/ (IdenticalIgnoringTags(ClosedSeq[ix], ClosedSeq[jx]) <=> (CanonSeq[ix] = CanonSeq[jx]))

(* ------------------------------------------------------------ table (B3) *)
Row(sh, k) == [id |-> k,
               fields |-> sh,
               generic |-> IsGeneric(sh),
               canon |-> CanonSeq[k],
               salt |-> SaltSeq[k]]
Table == LET seq == ShapeSeq IN
         [names |-> [n \in NameTexts |-> [bytes |-> NameBytes[n], hash |-> HashString[n], exported |-> Exported(n)]],
          type_arg |-> TypeArg,
          hash_tags |-> HashTags,
          hash_types |-> HashTypes,
          shapes |-> [k \in 1..Len(seq) |-> Row(seq[k], k)]]
ASSUME TableFile = "" \/ JsonSerialize(TableFile, Table)
=============================================================================
