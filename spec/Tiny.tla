------------------------------- MODULE Tiny -------------------------------
(* Property C10: -tiny silences every crash but keeps crash semantics.        *)
(*                                                                            *)
(* The module transcribes                                                     *)
(*   - the strip rules of stripRuntime (runtime_patch.go), the linker patch   *)
(*     0002 and the position rule of printFile (position.go) as DATA (Rules), *)
(*   - the crash procedure of the Go 1.26 runtime (panic.go, error.go,        *)
(*     traceback.go, signal_unix.go, proc.go, runtime.go, runtime1.go) as a   *)
(*     call tree whose leaves are the places that write to descriptor 2       *)
(*     (print builtin, writeErrData, gwrite) or run user code,                *)
(*   - the crash kinds of the property with the entry point each one takes.   *)
(*                                                                            *)
(* Run(fn) interprets the call tree under a rule set: an emptied function     *)
(* prunes its subtree, the print->hidePrint rewrite removes print leaves in   *)
(* every file but print.go, an emptied setTraceback freezes the traceback     *)
(* level at its link-time value.  The same interpreter run with no rules is   *)
(* the regular build.  TLC enumerates kind x context x GOTRACEBACK x          *)
(* recovered and checks Silent / SemanticsKept / Positions on every case;     *)
(* the case list, the rule table and, for every single rule, the kinds        *)
(* predicted to start printing when that rule is removed are exported as JSON *)
(* for the harness (checks/c10.py), which runs every case on the real         *)
(* binaries.                                                                  *)
EXTENDS Naturals, Sequences, FiniteSets, TLC, Json, SequencesExt

CONSTANTS
  Removed,     \* rule ids removed from the tool (mutation); {} for the real garble
  TBValues,    \* GOTRACEBACK settings explored
  Contexts,    \* goroutine contexts explored
  RecAllTB     \* TRUE: the recovered variant under every GOTRACEBACK; FALSE: only with GOTRACEBACK unset
               \* (a recovered panic never reaches the code that reads the setting)

-----------------------------------------------------------------------------
(* Strip rules.  how: "empty" = body removed, "retfalse" = body replaced by   *)
(* `return false`, "rewrite" = print/println call renamed to hidePrint,       *)
(* "linker" / "position" = not part of stripRuntime.  funcs are "file:func".  *)
(* Prefix rules (prefix "trace" in mprof.go, prefix "print" in traceback.go)  *)
(* are expanded to the functions of Go 1.26 that match.                       *)
Rule(id, how, funcs, note) == [id |-> id, how |-> how, funcs |-> funcs, note |-> note]

Rules == {
  Rule("error.printany", "empty", {"error.go:printany", "error.go:printanycustomtype"}, "case error.go"),
  Rule("debuglog.printDebugLog", "empty", {"debuglog.go:printDebugLog"}, "case debuglog.go; required direct strip"),
  Rule("hexdump.hexdumpWords", "empty", {"hexdump.go:hexdumpWords"}, "case hexdump.go; required direct strip"),
  Rule("mgcscavenge.printScavTrace", "empty", {"mgcscavenge.go:printScavTrace"}, "case mgcscavenge.go"),
  Rule("mprof.trace*", "empty", {"mprof.go:tracealloc", "mprof.go:tracefree", "mprof.go:tracegc"}, "case mprof.go, prefix trace"),
  Rule("panic.preprintpanics", "empty", {"panic.go:preprintpanics"}, "case panic.go"),
  Rule("panic.printpanics", "empty", {"panic.go:printpanics"}, "case panic.go"),
  Rule("print.hexdumpWords", "empty", {"print.go:hexdumpWords"}, "case print.go (function moved to hexdump.go in go1.26)"),
  Rule("proc.schedtrace", "empty", {"proc.go:schedtrace"}, "case proc.go"),
  Rule("runtime1.setTraceback", "empty", {"runtime1.go:setTraceback"}, "case runtime1.go"),
  Rule("runtime.writeErrStr", "empty", {"runtime.go:writeErrStr"}, "case runtime.go; required direct strip"),
  Rule("traceback.list", "empty",
       {"traceback.go:tracebackdefers", "traceback.go:printcreatedby", "traceback.go:printcreatedby1",
        "traceback.go:traceback", "traceback.go:tracebacktrap", "traceback.go:traceback1",
        "traceback.go:printAncestorTraceback", "traceback.go:printAncestorTracebackFuncInfo",
        "traceback.go:goroutineheader", "traceback.go:tracebackothers", "traceback.go:tracebackHexdump",
        "traceback.go:printCgoTraceback"}, "case traceback.go, explicit list"),
  Rule("traceback.print*", "empty", {"traceback.go:printArgs", "traceback.go:printFuncName"}, "case traceback.go, default: prefix print"),
  Rule("traceback.printOneCgoTraceback", "retfalse", {"traceback.go:printOneCgoTraceback"}, "case traceback.go"),
  Rule("hidePrint", "rewrite", {}, "ast.Inspect(file, stripPrints) for every runtime file but print.go"),
  Rule("linker.funcnames", "linker", {}, "linker patch 0002: names of unexported functions replaced by the empty string"),
  Rule("position.line", "position", {}, "printFile: //line :1 and /*line :1*/ in obfuscated packages")
}
RuleIds == {r.id : r \in Rules}
Active(rm) == {r \in Rules : r.id \notin rm}
(* what a rule set does: the set of emptied functions, and whether print is rewritten *)
Effect(rm) == [emptied |-> UNION {r.funcs : r \in {x \in Active(rm) : x.how \in {"empty", "retfalse"}}},
               rewrites |-> \E r \in Active(rm) : r.how = "rewrite"]
(* below, `rm` is always such an effect record, computed once per process run *)
Emptied(fn, ef) == fn \in ef.emptied
Rewrites(ef) == ef.rewrites

-----------------------------------------------------------------------------
(* Crash kinds.  class selects the runtime entry point, val the dynamic type  *)
(* class of the panic value as printpanicval sees it, rcv whether recover()   *)
(* can stop it, exit the program's own exit status for non-crashing kinds.    *)
K(k, class, val, rcv, exit) == [k |-> k, class |-> class, val |-> val, rcv |-> rcv, exit |-> exit]
KindTable == <<
  K("return", "none", "none", FALSE, 0),
  K("panic_string", "panic", "string", TRUE, 2),
  K("panic_multiline", "panic", "string", TRUE, 2),
  K("panic_error", "panic", "error", TRUE, 2),
  K("panic_liberror", "panic", "error", TRUE, 2),
  K("panic_stringer", "panic", "stringer", TRUE, 2),
  K("panic_struct", "panic", "custom", TRUE, 2),
  K("panic_ptr", "panic", "custom", TRUE, 2),
  K("panic_int", "panic", "basic", TRUE, 2),
  K("panic_float", "panic", "basic", TRUE, 2),
  K("panic_customint", "panic", "custom", TRUE, 2),
  K("panic_customstring", "panic", "custom", TRUE, 2),
  K("panic_nil", "panic", "error", TRUE, 2),
  K("panic_error_noisy", "panic", "noisy", TRUE, 2),
  K("panic_stringer_noisy", "panic", "noisy", TRUE, 2),
  K("panic_error_panics", "panic", "panicky", TRUE, 2),
  K("nil_deref", "sigpanic", "error", TRUE, 2),
  K("nil_func", "sigpanic", "error", TRUE, 2),
  K("index_oob", "panic", "error", TRUE, 2),
  K("slice_oob", "panic", "error", TRUE, 2),
  K("slice3_oob", "panic", "error", TRUE, 2),
  K("array_conv", "panic", "error", TRUE, 2),
  K("div_zero", "panic", "error", TRUE, 2),
  K("neg_shift", "panic", "error", TRUE, 2),
  K("makeslice_neg", "panic", "error", TRUE, 2),
  K("type_assert", "panic", "error", TRUE, 2),
  K("type_assert_iface", "panic", "error", TRUE, 2),
  K("nil_map_write", "panic", "error", TRUE, 2),
  K("unhashable_key", "panic", "error", TRUE, 2),
  K("chan_send_closed", "panic", "error", TRUE, 2),
  K("chan_close_closed", "panic", "error", TRUE, 2),
  K("chan_close_nil", "panic", "error", TRUE, 2),
  K("deadlock_chan", "deadlock", "none", FALSE, 2),
  K("deadlock_select", "deadlock", "none", FALSE, 2),
  K("deadlock_mutex", "deadlock", "none", FALSE, 2),
  K("deadlock_wg", "deadlock", "none", FALSE, 2),
  K("repanic_defer", "panic2", "string", TRUE, 2),
  K("recover_repanic", "panic2", "string", TRUE, 2),
  K("recover_newpanic", "panic2", "string", TRUE, 2),
  K("fatal_unlock", "fatal", "none", FALSE, 2),
  K("fatal_runlock", "fatal", "none", FALSE, 2),
  K("fatal_during_panic", "fatalinpanic", "string", FALSE, 2),
  K("stack_overflow", "stackoverflow", "none", FALSE, 2),
  K("goexit", "goexit", "none", FALSE, 2),
  K("exit_0", "exit", "none", FALSE, 0),
  K("exit_3", "exit", "none", FALSE, 3),
  K("exit_125", "exit", "none", FALSE, 125),
  K("sigquit_self", "sigquit", "none", FALSE, 2),
  K("sigterm_self", "sigterm", "none", FALSE, 0),
  K("direct_writer_probe", "probe", "none", FALSE, 0)
>>
Kinds == {KindTable[i].k : i \in 1..Len(KindTable)}
KindSet == {KindTable[i] : i \in 1..Len(KindTable)}

CrashClasses == {"panic", "panic2", "sigpanic", "deadlock", "fatal", "fatalinpanic", "stackoverflow", "goexit", "sigquit"}
ThrowClasses == {"stackoverflow", "sigquit"}      \* m.throwing >= throwTypeRuntime
G0Classes == {"deadlock", "goexit"}               \* fatal() called from checkdead on g0

Entry(class) ==
  CASE class \in {"panic", "panic2"}  -> "panic.go:gopanic"
    [] class = "sigpanic"             -> "signal_unix.go:sigpanic"
    [] class \in {"deadlock","goexit"} -> "proc.go:checkdead"
    [] class \in {"fatal","fatalinpanic"} -> "panic.go:fatal"
    [] class = "stackoverflow"        -> "stack.go:newstack"
    [] class = "sigquit"              -> "signal_unix.go:sighandler"
    [] class = "probe"                -> "proc.go:badmorestackgsignal"
    [] OTHER                          -> "none"

-----------------------------------------------------------------------------
(* The runtime's crash procedure as a call tree.                              *)
Call(f, c)        == [t |-> "call",  fn |-> f,  file |-> "", prim |-> "", cond |-> c, text |-> ""]
Pr(file, c, text) == [t |-> "write", fn |-> "", file |-> file, prim |-> "print", cond |-> c, text |-> text]
Wr(p, file, c, x) == [t |-> "write", fn |-> "", file |-> file, prim |-> p, cond |-> c, text |-> x]
User(c, text)     == [t |-> "user",  fn |-> "", file |-> "", prim |-> "", cond |-> c, text |-> text]
Exit              == [t |-> "exit",  fn |-> "", file |-> "", prim |-> "", cond |-> "always", text |-> ""]

(* (a function built with :> and @@ is evaluated once by TLC, a CASE operator *)
(* or a function constructor at every call)                                    *)
BodyF ==
  (    "panic.go:gopanic" :>
         << Call("panic.go:preprintpanics", "always"), Call("panic.go:fatalpanic", "always") >>
    ) @@ ("signal_unix.go:sigpanic" :> << Call("panic.go:gopanic", "always") >>
    ) @@ ("panic.go:preprintpanics" :>
         << User("val-method", "Error/String method of the panic value"),
            Call("panic.go:throw", "val-method-panics") >>
    ) @@ ("panic.go:fatalpanic" :>
         << Call("panic.go:printpanics", "always"), Call("panic.go:dopanic_m", "always"), Exit >>
    ) @@ ("panic.go:printpanics" :>
         << Pr("panic.go", "chain", "panic: <first>\n\t"),
            Pr("panic.go", "always", "panic: "), Call("error.go:printpanicval", "always"),
            Pr("panic.go", "recovered", " [recovered]"), Pr("panic.go", "always", "\n") >>
    ) @@ ("error.go:printpanicval" :>
         << Pr("error.go", "val-basic", "<v>"), Call("error.go:printindented", "val-stringlike"),
            Call("error.go:printanycustomtype", "val-custom") >>
    ) @@ ("error.go:printindented" :> << Pr("error.go", "always", "<s>") >>
    ) @@ ("error.go:printanycustomtype" :> << Pr("error.go", "always", "(T) v") >>
    ) @@ ("panic.go:dopanic_m" :>
         << Pr("panic.go", "sig", "[signal SIGSEGV ...]\n"),
            Pr("panic.go", "tb-user-g", "\n"),
            Call("traceback.go:goroutineheader", "tb-user-g"), Call("traceback.go:traceback", "tb-user-g"),
            Pr("panic.go", "tb-g0", "\nruntime stack:\n"), Call("traceback.go:traceback", "tb-g0"),
            Call("traceback.go:tracebackothers", "tb-all"),
            Call("debuglog.go:printDebugLog", "always") >>
    ) @@ ("traceback.go:goroutineheader" :> << Pr("traceback.go", "always", "goroutine N [status]:\n") >>
    ) @@ ("traceback.go:traceback" :> << Call("traceback.go:traceback1", "always") >>
    ) @@ ("traceback.go:tracebacktrap" :> << Call("traceback.go:traceback1", "always") >>
    ) @@ ("traceback.go:traceback1" :>
         << Call("traceback.go:traceback2", "always"), Call("traceback.go:printcreatedby", "child"),
            Call("traceback.go:printAncestorTraceback", "never") >>
    ) @@ ("traceback.go:traceback2" :>
         << Call("traceback.go:printFuncName", "always"), Call("traceback.go:printArgs", "always"),
            Pr("traceback.go", "always", "\tfile:line +0x..\n") >>
    ) @@ ("traceback.go:printFuncName" :> << Pr("traceback.go", "always", "pkg.func") >>
    ) @@ ("traceback.go:printArgs" :> << Pr("traceback.go", "always", "(0x..)") >>
    ) @@ ("traceback.go:printcreatedby" :> << Call("traceback.go:printcreatedby1", "always") >>
    ) @@ ("traceback.go:printcreatedby1" :> << Pr("traceback.go", "always", "created by pkg.func in goroutine N\n") >>
    ) @@ ("traceback.go:printAncestorTraceback" :> << Pr("traceback.go", "always", "[originating from goroutine N]:\n") >>
    ) @@ ("traceback.go:tracebackothers" :> << Call("traceback.go:tracebacksomeothers", "always") >>
    ) @@ ("traceback.go:tracebacksomeothers" :>
         << Pr("traceback.go", "always", "\n"), Call("traceback.go:goroutineheader", "always"),
            Call("traceback.go:traceback", "always") >>
    ) @@ ("debuglog.go:printDebugLog" :> << Wr("gwrite", "debuglog.go", "dlog-enabled", "debug log") >>
    ) @@ ("panic.go:fatal" :>
         << Call("panic.go:printPreFatalDeferPanic", "in-panic"),
            Pr("panic.go", "always", "fatal error: "), Call("error.go:printindented", "always"),
            Pr("panic.go", "always", "\n"), Call("panic.go:fatalthrow", "always") >>
    ) @@ ("panic.go:printPreFatalDeferPanic" :>
         << Call("panic.go:printpanics", "always"), Pr("panic.go", "always", "\t") >>
    ) @@ ("panic.go:throw" :>
         << Pr("panic.go", "always", "fatal error: "), Call("error.go:printindented", "always"),
            Pr("panic.go", "always", "\n"), Call("panic.go:fatalthrow", "always") >>
    ) @@ ("panic.go:fatalthrow" :> << Call("panic.go:dopanic_m", "always"), Exit >>
    ) @@ ("proc.go:checkdead" :> << Call("panic.go:fatal", "always") >>
    ) @@ ("stack.go:newstack" :>
         << Pr("stack.go", "always", "runtime: goroutine stack exceeds N-byte limit\n"), Call("panic.go:throw", "always") >>
    ) @@ ("signal_unix.go:sighandler" :>
         << Call("signal_unix.go:fatalsignal", "always"),
            Call("traceback.go:goroutineheader", "tb-level"), Call("traceback.go:tracebacktrap", "tb-level"),
            Call("traceback.go:tracebackothers", "tb-level"), Pr("signal_unix.go", "tb-level", "\n"),
            Call("signal_amd64.go:dumpregs", "tb-level"), Call("debuglog.go:printDebugLog", "always"), Exit >>
    ) @@ ("signal_unix.go:fatalsignal" :>
         << Pr("signal_unix.go", "always", "SIGQUIT: quit\n"), Pr("signal_unix.go", "always", "PC=.. m=.. sigcode=..\n") >>
    ) @@ ("signal_amd64.go:dumpregs" :> << Pr("signal_amd64.go", "always", "rax 0x..\n") >>
    ) @@ ("proc.go:badmorestackgsignal" :> << Call("runtime.go:writeErrStr", "always") >>
    ) @@ ("runtime.go:writeErrStr" :> << Call("runtime.go:writeErrData", "always") >>
    ) @@ ("runtime.go:writeErrData" :> << Wr("write2", "runtime.go", "always", "fatal: morestack on gsignal\n") >>
    )
Funcs == DOMAIN BodyF
Body(fn) == IF fn \in Funcs THEN BodyF[fn] ELSE << >>

(* traceback level as gotraceback() computes it.  With setTraceback emptied   *)
(* the cache keeps its link-time value 2<<tracebackShift: level 2, all and    *)
(* crash off, whatever GOTRACEBACK says.                                      *)
TBLevel(tb) == CASE tb = "none" -> 0 [] tb \in {"unset", "single"} -> 1 [] tb = "all" -> 1 [] OTHER -> 2
TBAll(tb)   == tb \in {"all", "system", "crash"}
TBCrash(tb) == tb = "crash"

Env(c, rm) ==
  LET i == c
      frozen == Emptied("runtime1.go:setTraceback", rm)
      thr == i.class \in ThrowClasses
  IN [class |-> i.class, val |-> i.val, ctx |-> c.ctx, kind |-> c.kind,
      level |-> IF thr THEN 2 ELSE IF frozen THEN 2 ELSE TBLevel(c.tb),
      all |-> thr \/ (~frozen /\ TBAll(c.tb)),
      docrash |-> ~frozen /\ TBCrash(c.tb),
      g0 |-> i.class \in G0Classes,
      converted |-> ~Emptied("panic.go:preprintpanics", rm)]

Holds(cond, e) ==
  CASE cond = "always" -> TRUE
    [] cond = "never" -> FALSE
    [] cond = "val-basic" -> e.val = "basic"
    [] cond = "val-stringlike" -> e.val = "string" \/ (e.val \in {"error", "stringer", "noisy"} /\ e.converted)
    [] cond = "val-custom" -> e.val = "custom" \/ (e.val \in {"error", "stringer", "noisy", "panicky"} /\ ~e.converted)
    [] cond = "val-method" -> e.val = "noisy"
    [] cond = "val-method-panics" -> e.val = "panicky"
    [] cond = "sig" -> e.class = "sigpanic"
    [] cond = "chain" -> e.class \in {"panic2", "fatalinpanic"}
    [] cond = "recovered" -> e.kind \in {"recover_repanic", "recover_newpanic"}
    [] cond = "in-panic" -> e.class = "fatalinpanic"
    [] cond = "tb-user-g" -> e.level > 0 /\ ~e.g0
    [] cond = "tb-g0" -> e.level > 0 /\ e.g0 /\ e.level >= 2
    [] cond = "tb-all" -> e.level > 0 /\ (e.all \/ e.g0)
    [] cond = "tb-level" -> e.level > 0
    [] cond = "child" -> e.ctx = "child"
    [] cond = "dlog-enabled" -> FALSE      \* const dlogEnabled = false without the debuglog build tag
    [] OTHER -> FALSE

Rewritten(it, rm) == it.prim = "print" /\ it.file # "print.go" /\ Rewrites(rm)

(* Run yields the events of a call in order; an `exit` event ends the process, *)
(* UpToExit cuts the event list there.  (Every value is used once: TLC does   *)
(* not memoise LET definitions inside recursive operators.)                   *)
Ev(ch, by, text) == [ch |-> ch, by |-> by, text |-> text]
RECURSIVE Run(_, _, _), RunSeq(_, _, _, _)
Run(fn, e, rm) == IF Emptied(fn, rm) THEN << >> ELSE RunSeq(Body(fn), 1, e, rm)
Item(it, e, rm) ==
  IF ~Holds(it.cond, e) THEN << >>
  ELSE CASE it.t = "call"  -> Run(it.fn, e, rm)
         [] it.t = "write" -> IF Rewritten(it, rm) THEN << >> ELSE << Ev("stderr", "runtime", it.text) >>
         [] it.t = "user"  -> << Ev("stdout", "program", it.text) >>
         [] OTHER          -> << Ev("-", "exit", "") >>
RunSeq(items, i, e, rm) ==
  IF i > Len(items) THEN << >> ELSE Item(items[i], e, rm) \o RunSeq(items, i + 1, e, rm)
ExitAt(evs) == {j \in 1..Len(evs) : evs[j].by = "exit"}
FirstExit(xs) == CHOOSE j \in xs : \A m \in xs : j <= m
Cut(evs, xs) == IF xs = {} THEN evs ELSE SubSeq(evs, 1, FirstExit(xs) - 1)
UpToExit(evs) == [out |-> Cut(evs, ExitAt(evs)), term |-> ExitAt(evs) # {}]

(* One whole process run: the program's own marker writes, then the crash.    *)
Marker == << Ev("stderr", "program", "OWN:start"), Ev("stdout", "program", "OUT:start") >>
Recovers(c) == c.rec /\ c.rcv
Outcome(r, i, e) ==
  [out |-> Marker \o r.out,
   exit |-> IF r.term THEN (IF e.docrash THEN "SIGABRT" ELSE "2")
            ELSE IF i.class = "sigterm" THEN "SIGTERM" ELSE ToString(i.exit)]
ProcessE(c, rm) ==
  IF Recovers(c)
  THEN [out |-> Marker \o << Ev("stdout", "program", "OUT:recovered=" \o c.val) >>, exit |-> "0"]
  ELSE Outcome(UpToExit(Run(Entry(c.class), Env(c, rm), rm)), c, Env(c, rm))

Process(c, removed) == ProcessE(c, Effect(removed))
EffTiny == Effect(Removed)
EffNone == Effect(RuleIds)
Tiny(c)    == ProcessE(c, EffTiny)       \* the -tiny build (with the rules of this configuration)
Regular(c) == ProcessE(c, EffNone)       \* the regular build: no rule at all

RuntimeWrites(p) == {j \in 1..Len(p.out) : p.out[j].by = "runtime"}
ProgramOut(p) == SelectSeq(p.out, LAMBDA x : x.by = "program")

-----------------------------------------------------------------------------
(* a case carries the table row of its kind *)
MkCase(e, x, t, b) == [kind |-> e.k, class |-> e.class, val |-> e.val, rcv |-> e.rcv, exit |-> e.exit,
                       ctx |-> x, tb |-> t, rec |-> b]
Cases == {MkCase(e, x, t, FALSE) : e \in KindSet, x \in Contexts, t \in TBValues}
         \cup {MkCase(e, x, t, TRUE) : e \in KindSet, x \in Contexts, t \in IF RecAllTB THEN TBValues ELSE {"unset"} \cap TBValues}

(* Deviations that the transcription itself derives (they are checked to be   *)
(* exactly these, see GapsAreDerived); the harness looks for them on the real *)
(* binaries and reports them as findings.                                     *)
GapUserMethod(c) == c.val = "noisy" /\ ~Recovers(c)
GapCrashAbort(c) == c.tb = "crash" /\ c.class \in CrashClasses /\ ~Recovers(c)

(* One state per case: `start` holds the case, the single step runs the two   *)
(* builds of the program (the interpreter above under the -tiny rule set and  *)
(* under no rule) and stores what each process wrote and how it ended.        *)
VARIABLES cur, phase, tinyR, regR
vars == <<cur, phase, tinyR, regR>>
NotRun == [out |-> << >>, exit |-> "-"]
Init == cur \in Cases /\ phase = "start" /\ tinyR = NotRun /\ regR = NotRun
Next == /\ phase = "start" /\ phase' = "done" /\ UNCHANGED cur
        /\ tinyR' = Tiny(cur) /\ regR' = Regular(cur)
Spec == Init /\ [][Next]_vars

(* Silent: the -tiny process writes nothing but what the program wrote.       *)
Silent == phase = "done" => RuntimeWrites(tinyR) = {}
(* SemanticsKept: exit status and the program's own output are those of the   *)
(* regular build, except for the two derived gaps.                            *)
SemanticsKept ==
  phase = "done" =>
    /\ (~GapCrashAbort(cur) => tinyR.exit = regR.exit)
    /\ (~GapUserMethod(cur) => ProgramOut(tinyR) = ProgramOut(regR))
GapsAreDerived ==
  phase = "done" =>
    /\ (GapCrashAbort(cur) /\ Removed = {} => tinyR.exit # regR.exit)
    /\ (GapUserMethod(cur) /\ Removed = {} => ProgramOut(tinyR) # ProgramOut(regR))
(* The regular build does print for every crashing kind (the case is not vacuous). *)
NonVacuous ==
  phase = "done" =>
    (cur.class \in CrashClasses \cup {"probe"} /\ ~Recovers(cur)
       => RuntimeWrites(regR) # {})

(* Positions: in obfuscated packages printFile puts every token on line 1 of  *)
(* the empty file name; packages that are never obfuscated (runtime and its   *)
(* dependencies) keep theirs.                                                 *)
FramePkgs == {"obfuscated", "runtime-or-deps"}
PosOf(pkg, rm) == IF pkg = "obfuscated" /\ "position.line" \notin rm THEN [file |-> "", line |-> 1] ELSE [file |-> "orig.go", line |-> 42]
Positions == PosOf("obfuscated", Removed) = [file |-> "", line |-> 1]
ASSUME Removed = {} => Positions

-----------------------------------------------------------------------------
(* Mutation prediction: for every rule, the kinds that start printing and the *)
(* kinds whose exit status / own output changes when only that rule goes.     *)
(* (evaluated on the unrecovered child-goroutine cases of two GOTRACEBACK settings: the     *)
(* others reach no further write site)                                                     *)
PCases(k) == {MkCase(e, "child", t, FALSE) : e \in {d \in KindSet : d.k = k}, t \in {"unset", "crash"} \cap TBValues}
PAll == UNION {PCases(k) : k \in Kinds}
RegT == [c \in PAll |-> Regular(c)]
(* mutations: every single rule, and the whole `case "panic.go"` of stripRuntime *)
PanicCase == "panic.preprintpanics+panic.printpanics"
MutNames == RuleIds \cup {PanicCase}
MutSet(name) == IF name = PanicCase THEN {"panic.preprintpanics", "panic.printpanics"} ELSE {name}
MutT == [r \in MutNames |-> LET ef == Effect(MutSet(r)) IN [c \in PAll |-> ProcessE(c, ef)]]
Predict == [r \in MutNames |->
             [prints |-> {k \in Kinds : \E c \in PCases(k) : RuntimeWrites(MutT[r][c]) # {}},
              exit_differs |-> {k \in Kinds : \E c \in PCases(k) : MutT[r][c].exit # RegT[c].exit},
              own_output_differs |-> {k \in Kinds : \E c \in PCases(k) : ProgramOut(MutT[r][c]) # ProgramOut(RegT[c])}]]
BaseT == [c \in PAll |-> ProcessE(c, Effect({}))]
Baseline == [prints |-> {k \in Kinds : \E c \in PCases(k) : RuntimeWrites(BaseT[c]) # {}},
             exit_differs |-> {k \in Kinds : \E c \in PCases(k) : BaseT[c].exit # RegT[c].exit},
             own_output_differs |-> {k \in Kinds : \E c \in PCases(k) : ProgramOut(BaseT[c]) # ProgramOut(RegT[c])}]

(* Export.  cases: what the harness must run; expect: what the model says     *)
(* about each (kind, GOTRACEBACK) - the outcome does not depend on the        *)
(* goroutine context except for the created-by line of a child goroutine, so  *)
(* it is evaluated for the child context.                                     *)
CaseRow(c) ==
  [kind |-> c.kind, ctx |-> c.ctx, tb |-> c.tb, rec |-> c.rec, class |-> c.class,
   recovers |-> Recovers(c), gap_user_method |-> GapUserMethod(c), gap_crash_abort |-> GapCrashAbort(c)]
ExpectRow(c, t, g) ==
  [kind |-> c.kind, tb |-> c.tb, regular_prints |-> RuntimeWrites(g) # {}, tiny_prints |-> RuntimeWrites(t) # {},
   exit_regular |-> g.exit, exit_tiny |-> t.exit,
   own_output_equal |-> ProgramOut(t) = ProgramOut(g)]
ECases == {MkCase(e, "child", t, FALSE) : e \in KindSet, t \in TBValues}

Export == [cases |-> SetToSeq({CaseRow(c) : c \in Cases}),
           expect |-> SetToSeq({ExpectRow(c, Tiny(c), Regular(c)) : c \in ECases}),
           rules |-> SetToSeq({[id |-> r.id, how |-> r.how, funcs |-> SetToSeq(r.funcs), note |-> r.note] : r \in Rules}),
           removed |-> SetToSeq(Removed),
           predict |-> Predict,
           baseline |-> Baseline]
ASSUME JsonSerialize("tiny_cases.json", Export)
=============================================================================
