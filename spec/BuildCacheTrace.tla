-------------------------- MODULE BuildCacheTrace --------------------------
(* Trace validation for BuildCache.tla: a history really executed by the    *)
(* harness against the real garble (build / edit / damage / wipe steps,     *)
(* with the set of module packages that the real cmd/go recompiled in each  *)
(* build, read from the compile-start events) must be a behaviour of the    *)
(* specification, step by step.                                             *)
EXTENDS BuildCache, SequencesExt

Trace == ndJsonDeserialize("buildcache_trace.ndjson")
VARIABLE l
tvars == <<vars, l>>
TraceInit == Init /\ l = 1
Ev(e) == l <= Len(Trace) /\ Trace[l].ev = e /\ l' = l + 1

TBuild == /\ Ev("build")
          /\ \E cfg \in Cfgs : /\ \A f \in CfgFields : cfg[f] = Trace[l].cfg[f]
                               /\ Build(cfg)
          /\ last'.compiled = ToSet(Trace[l].compiled)
          /\ last'.recomputed = ToSet(Trace[l].recomputed)
TEdit == Ev("edit") /\ (IF Trace[l].kind = "body" THEN EditBody(Trace[l].p) ELSE EditApi(Trace[l].p))
TDamage == /\ Ev("damage")
           /\ \E e \in gcache : e.p = Trace[l].p /\ DamageEntry(e, Trace[l].kind)
TWipe == Ev("wipe") /\ WipeStore(Trace[l].which)
TLoseGo == /\ Ev("losego")
           /\ \E e \in gocache : e.aid.p = Trace[l].p /\ LoseGo(e)
TraceNext == TBuild \/ TEdit \/ TDamage \/ TWipe \/ TLoseGo
TraceSpec == TraceInit /\ [][TraceNext]_tvars
TraceAccepted == TLCGet("stats").diameter - 1 = Len(Trace)
=============================================================================
