------------------------------ MODULE Lifecycle ------------------------------
(* What a top-level garble command creates, removes and leaves behind        *)
(* (property C19): mainErr / toolexecCmd / commandReverse / commandMap in    *)
(* main.go, reverse.go, map.go; saveSharedCache in cache_shared.go; the      *)
(* -debugdir ownership rule and restoreDebugDirFromCache (debugdir.go).      *)
(*                                                                          *)
(* One behaviour = one command.  The environment picks the command, where it *)
(* fails, the inherited GARBLE_SHARED value, the pre-state of the -debugdir  *)
(* target and the state of the artifact cache.  Directories are abstract     *)
(* names: "own" is the shared temp dir this invocation creates, "foreign"    *)
(* the directory named by an inherited GARBLE_SHARED, "dbg" the -debugdir    *)
(* target.                                                                   *)
EXTENDS Naturals, FiniteSets, TLC, Sequences, Json

CONSTANTS
  FixInherited   \* BOOLEAN: a top-level command forgets an inherited GARBLE_SHARED (fix of F9)

Commands == {"build", "run", "test", "reverse", "map"}
(* where the command stops: before anything is created, in go list, after the shared *)
(* dir exists (go build fails in a toolexec step or at link), or not at all           *)
Outcomes == {"garbleflag", "helpflag", "golist", "unknownflag", "gofails", "ok"}
Inherited == {"unset", "foreign"}
DbgPre == {"notrequested", "absent", "empty", "owned", "foreignFiles", "foreignDirs", "symlink", "file"}
Artifacts == {"none", "partial", "all"}     \* debugdir artifacts of the build's packages in GARBLE_CACHE

VARIABLES
  cmd, outcome, inherited, dbgpre, artifacts,   \* chosen by the environment in Init
  pc,
  env,        \* value of GARBLE_SHARED in this process: "unset" | "foreign" | "own"
  exists,     \* set of directories that exist: subset of {"own", "foreign"}
  created,    \* directories this invocation created
  removed,    \* directories this invocation removed (history)
  dbg,        \* state of the -debugdir target: DbgPre \ {"notrequested"} \cup {"complete", "incomplete"}
  dbgTouched, \* the pre-existing content of the target was modified or deleted
  forcedA,    \* -a was added to the go command
  exit        \* "running" | "ok" | "error"
vars == <<cmd, outcome, inherited, dbgpre, artifacts, pc, env, exists, created, removed, dbg, dbgTouched, forcedA, exit>>

UsesDebugDir == cmd \in {"build", "run", "test"} /\ dbgpre # "notrequested"

Init ==
  /\ cmd \in Commands /\ outcome \in Outcomes /\ inherited \in Inherited
  /\ dbgpre \in DbgPre /\ artifacts \in Artifacts
  /\ (cmd \in {"reverse", "map"} => dbgpre = "notrequested")
  /\ (outcome = "unknownflag" => cmd \in {"reverse", "map"})   \* build/run/test hand unknown flags to go: that is "gofails"
  /\ (cmd \in {"reverse", "map"} => outcome # "gofails")
  /\ (dbgpre = "notrequested" => artifacts = "none")
  /\ pc = "start"
  /\ env = inherited
  /\ exists = IF inherited = "foreign" THEN {"foreign"} ELSE {}
  /\ created = {} /\ removed = {}
  /\ dbg = IF dbgpre = "notrequested" THEN "absent" ELSE dbgpre
  /\ dbgTouched = FALSE /\ forcedA = FALSE
  /\ exit = "running"

(* toolexecCmd, first part: flag splitting, help, garble flags after the command *)
Flags ==
  /\ pc = "start"
  /\ env' = IF FixInherited THEN "unset" ELSE env
  /\ pc' = IF outcome \in {"garbleflag", "helpflag"} THEN "cleanup" ELSE "list"
  /\ exit' = IF outcome \in {"garbleflag", "helpflag"} THEN "error" ELSE exit
  /\ UNCHANGED <<cmd, outcome, inherited, dbgpre, artifacts, exists, created, removed, dbg, dbgTouched, forcedA>>

(* go env, go version check, buildid, appendListedPackages *)
List ==
  /\ pc = "list"
  /\ pc' = IF outcome = "golist" THEN "cleanup" ELSE "shared"
  /\ exit' = IF outcome = "golist" THEN "error" ELSE exit
  /\ UNCHANGED <<cmd, outcome, inherited, dbgpre, artifacts, env, exists, created, removed, dbg, dbgTouched, forcedA>>

(* saveSharedCache: os.MkdirTemp + os.Setenv *)
Shared ==
  /\ pc = "shared"
  /\ exists' = exists \cup {"own"}
  /\ created' = created \cup {"own"}
  /\ env' = "own"
  /\ pc' = IF UsesDebugDir THEN "debugdir" ELSE "run"
  /\ UNCHANGED <<cmd, outcome, inherited, dbgpre, artifacts, removed, dbg, dbgTouched, forcedA, exit>>

(* the -debugdir ownership rule: absent or empty or carrying the sentinel -> claimed; *)
(* anything else is rejected untouched.  os.ReadDir follows a symlink to a directory, *)
(* Lstat(sentinel) looks inside it: a symlink behaves like the directory it names     *)
(* (here: a foreign directory with files and no sentinel); a regular file is an       *)
(* error of ReadDir other than not-exist, hence rejected.                             *)
DebugDir ==
  /\ pc = "debugdir"
  /\ \/ /\ dbg \in {"absent", "empty"}
        /\ dbg' = "claimed" /\ dbgTouched' = FALSE /\ pc' = "needsrebuild" /\ exit' = exit
     \/ /\ dbg = "owned"
        /\ dbg' = "claimed" /\ dbgTouched' = FALSE /\ pc' = "needsrebuild" /\ exit' = exit   \* own content may be replaced
     \/ /\ dbg \in {"foreignFiles", "foreignDirs", "symlink", "file"}
        /\ dbg' = dbg /\ dbgTouched' = FALSE /\ pc' = "cleanup" /\ exit' = "error"
  /\ UNCHANGED <<cmd, outcome, inherited, dbgpre, artifacts, env, exists, created, removed, forcedA>>

(* debugDirNeedsRebuild: -a unless every package input has its artifacts cached *)
NeedsRebuild ==
  /\ pc = "needsrebuild"
  /\ forcedA' = (artifacts # "all")
  /\ pc' = "run"
  /\ UNCHANGED <<cmd, outcome, inherited, dbgpre, artifacts, env, exists, created, removed, dbg, dbgTouched, exit>>

(* build/run/test: exec go with -toolexec; reverse/map: rejectUnknownBuildFlags and the work itself *)
Run ==
  /\ pc = "run"
  /\ IF outcome \in {"gofails", "unknownflag"}
       THEN /\ exit' = "error" /\ pc' = "cleanup" /\ dbg' = (IF dbg = "claimed" THEN "incomplete" ELSE dbg)
       ELSE /\ exit' = exit /\ pc' = (IF UsesDebugDir THEN "restore" ELSE "cleanup") /\ dbg' = dbg
  /\ UNCHANGED <<cmd, outcome, inherited, dbgpre, artifacts, env, exists, created, removed, dbgTouched, forcedA>>

(* restoreDebugDirFromCache: packages compiled now wrote their files during the build *)
(* (everything, when -a was forced); cached packages are restored from the artifacts  *)
Restore ==
  /\ pc = "restore"
  /\ dbg' = IF forcedA \/ artifacts = "all" THEN "complete" ELSE "incomplete"
  /\ pc' = "cleanup"
  /\ UNCHANGED <<cmd, outcome, inherited, dbgpre, artifacts, env, exists, created, removed, dbgTouched, forcedA, exit>>

(* the deferred os.RemoveAll(os.Getenv("GARBLE_SHARED")) of mainErr / reverse / map *)
Cleanup ==
  /\ pc = "cleanup"
  /\ removed' = IF env = "unset" THEN removed ELSE removed \cup {env}
  /\ exists' = IF env = "unset" THEN exists ELSE exists \ {env}
  /\ exit' = IF exit = "running" THEN "ok" ELSE exit
  /\ pc' = "done"
  /\ UNCHANGED <<cmd, outcome, inherited, dbgpre, artifacts, env, created, dbg, dbgTouched, forcedA>>

Next == Flags \/ List \/ Shared \/ DebugDir \/ NeedsRebuild \/ Run \/ Restore \/ Cleanup
Spec == Init /\ [][Next]_vars /\ WF_vars(Next)

(* ------------------------------------------------------------------ properties *)
OnlyOwnRemoved == removed \subseteq created
TmpClean == pc = "done" => "own" \notin exists
ForeignSharedKept == (inherited = "foreign") => "foreign" \in exists
ForeignDebugDirUntouched == (dbgpre \in {"foreignFiles", "foreignDirs", "symlink", "file"}) => (~dbgTouched /\ dbg = dbgpre)
ForeignRejected == (pc = "done" /\ UsesDebugDir /\ dbgpre \in {"foreignFiles", "foreignDirs", "symlink", "file"}
                    /\ outcome \notin {"garbleflag", "helpflag", "golist"}) => exit = "error"
OwnedComplete == (pc = "done" /\ exit = "ok" /\ UsesDebugDir) => dbg = "complete"
Terminates == <>(pc = "done")

(* ------------------------------------------------------------------ cells for replay (B2) *)
Cell == [cmd |-> cmd, outcome |-> outcome, inherited |-> inherited, dbgpre |-> dbgpre, artifacts |-> artifacts]
Expect == [exit |-> exit, dbg |-> dbg, forcedA |-> forcedA, removed |-> removed]
Emit == pc = "done" => PrintT(<<"CELL", ToJson([cell |-> Cell, expect |-> Expect])>>)
=============================================================================
