---- MODULE PipelineMC_TTrace_1790205397 ----
EXTENDS Sequences, TLCExt, Toolbox, Naturals, TLC, PipelineMC

_expression ==
    LET PipelineMC_TEExpression == INSTANCE PipelineMC_TEExpression
    IN PipelineMC_TEExpression!expression
----

_trace ==
    LET PipelineMC_TETrace == INSTANCE PipelineMC_TETrace
    IN PipelineMC_TETrace!trace
----

_inv ==
    ~(
        TLCGet("level") = Len(_TETrace)
        /\
        kills = (0)
        /\
        texit = ([t1 |-> "running", t2 |-> "ok"])
        /\
        named = ({})
        /\
        damages = (0)
        /\
        bin = ("cur")
        /\
        gkeys = ({})
        /\
        stamp = ("cur")
        /\
        forcea = ([t1 |-> FALSE, t2 |-> FALSE])
        /\
        used = ([l1 |-> "-", l2 |-> "cur"])
        /\
        tmp = ("none")
        /\
        lock = ("none")
        /\
        akeys = ({})
        /\
        linked = ({"l2"})
        /\
        kpc = ((<<"t1", "lib", "asm2">> :> "none" @@ <<"t1", "lib", "compile">> :> "none" @@ <<"t1", "lib", "asm1">> :> "none" @@ <<"t1", "main", "asm2">> :> "none" @@ <<"t1", "main", "compile">> :> "none" @@ <<"t1", "main", "asm1">> :> "none" @@ <<"t2", "lib", "asm2">> :> "none" @@ <<"t2", "lib", "compile">> :> "none" @@ <<"t2", "lib", "asm1">> :> "none" @@ <<"t2", "main", "asm2">> :> "none" @@ <<"t2", "main", "compile">> :> "none" @@ <<"t2", "main", "asm1">> :> "none"))
        /\
        created = ([t1 |-> {}, t2 |-> {"t2"}])
        /\
        tpc = ([t1 |-> "idle", t2 |-> "cleaned"])
        /\
        dbg = ([t1 |-> "none", t2 |-> "checked"])
        /\
        dirs = ({})
        /\
        wrotein = ((<<"t1", "lib", "asm2">> :> {} @@ <<"t1", "lib", "compile">> :> {} @@ <<"t1", "lib", "asm1">> :> {} @@ <<"t1", "main", "asm2">> :> {} @@ <<"t1", "main", "compile">> :> {} @@ <<"t1", "main", "asm1">> :> {} @@ <<"t2", "lib", "asm2">> :> {} @@ <<"t2", "lib", "compile">> :> {} @@ <<"t2", "lib", "asm1">> :> {} @@ <<"t2", "main", "asm2">> :> {} @@ <<"t2", "main", "compile">> :> {} @@ <<"t2", "main", "asm1">> :> {}))
        /\
        dkeys = ({})
        /\
        env = ([t1 |-> "unset", t2 |-> "t2"])
        /\
        pc = ([l1 |-> "idle", l2 |-> "done"])
        /\
        removed = ([t1 |-> {}, t2 |-> {"t2"}])
        /\
        gocache = ({<<"lib", "c1">>, <<"main", "c1">>})
        /\
        restored = ([t1 |-> {}, t2 |-> {}])
    )
----

_init ==
    /\ damages = _TETrace[1].damages
    /\ gocache = _TETrace[1].gocache
    /\ restored = _TETrace[1].restored
    /\ lock = _TETrace[1].lock
    /\ linked = _TETrace[1].linked
    /\ env = _TETrace[1].env
    /\ bin = _TETrace[1].bin
    /\ akeys = _TETrace[1].akeys
    /\ dbg = _TETrace[1].dbg
    /\ dirs = _TETrace[1].dirs
    /\ dkeys = _TETrace[1].dkeys
    /\ wrotein = _TETrace[1].wrotein
    /\ kills = _TETrace[1].kills
    /\ stamp = _TETrace[1].stamp
    /\ pc = _TETrace[1].pc
    /\ gkeys = _TETrace[1].gkeys
    /\ used = _TETrace[1].used
    /\ texit = _TETrace[1].texit
    /\ kpc = _TETrace[1].kpc
    /\ created = _TETrace[1].created
    /\ tmp = _TETrace[1].tmp
    /\ named = _TETrace[1].named
    /\ forcea = _TETrace[1].forcea
    /\ removed = _TETrace[1].removed
    /\ tpc = _TETrace[1].tpc
----

_next ==
    /\ \E i,j \in DOMAIN _TETrace:
        /\ \/ /\ j = i + 1
              /\ i = TLCGet("level")
        /\ damages  = _TETrace[i].damages
        /\ damages' = _TETrace[j].damages
        /\ gocache  = _TETrace[i].gocache
        /\ gocache' = _TETrace[j].gocache
        /\ restored  = _TETrace[i].restored
        /\ restored' = _TETrace[j].restored
        /\ lock  = _TETrace[i].lock
        /\ lock' = _TETrace[j].lock
        /\ linked  = _TETrace[i].linked
        /\ linked' = _TETrace[j].linked
        /\ env  = _TETrace[i].env
        /\ env' = _TETrace[j].env
        /\ bin  = _TETrace[i].bin
        /\ bin' = _TETrace[j].bin
        /\ akeys  = _TETrace[i].akeys
        /\ akeys' = _TETrace[j].akeys
        /\ dbg  = _TETrace[i].dbg
        /\ dbg' = _TETrace[j].dbg
        /\ dirs  = _TETrace[i].dirs
        /\ dirs' = _TETrace[j].dirs
        /\ dkeys  = _TETrace[i].dkeys
        /\ dkeys' = _TETrace[j].dkeys
        /\ wrotein  = _TETrace[i].wrotein
        /\ wrotein' = _TETrace[j].wrotein
        /\ kills  = _TETrace[i].kills
        /\ kills' = _TETrace[j].kills
        /\ stamp  = _TETrace[i].stamp
        /\ stamp' = _TETrace[j].stamp
        /\ pc  = _TETrace[i].pc
        /\ pc' = _TETrace[j].pc
        /\ gkeys  = _TETrace[i].gkeys
        /\ gkeys' = _TETrace[j].gkeys
        /\ used  = _TETrace[i].used
        /\ used' = _TETrace[j].used
        /\ texit  = _TETrace[i].texit
        /\ texit' = _TETrace[j].texit
        /\ kpc  = _TETrace[i].kpc
        /\ kpc' = _TETrace[j].kpc
        /\ created  = _TETrace[i].created
        /\ created' = _TETrace[j].created
        /\ tmp  = _TETrace[i].tmp
        /\ tmp' = _TETrace[j].tmp
        /\ named  = _TETrace[i].named
        /\ named' = _TETrace[j].named
        /\ forcea  = _TETrace[i].forcea
        /\ forcea' = _TETrace[j].forcea
        /\ removed  = _TETrace[i].removed
        /\ removed' = _TETrace[j].removed
        /\ tpc  = _TETrace[i].tpc
        /\ tpc' = _TETrace[j].tpc

\* Uncomment the ASSUME below to write the states of the error trace
\* to the given file in Json format. Note that you can pass any tuple
\* to `JsonSerialize`. For example, a sub-sequence of _TETrace.
    \* ASSUME
    \*     LET J == INSTANCE Json
    \*         IN J!JsonSerialize("PipelineMC_TTrace_1790205397.json", _TETrace)

=============================================================================

 Note that you can extract this module `PipelineMC_TEExpression`
  to a dedicated file to reuse `expression` (the module in the 
  dedicated `PipelineMC_TEExpression.tla` file takes precedence 
  over the module `PipelineMC_TEExpression` below).

---- MODULE PipelineMC_TEExpression ----
EXTENDS Sequences, TLCExt, Toolbox, Naturals, TLC, PipelineMC

expression == 
    [
        \* To hide variables of the `PipelineMC` spec from the error trace,
        \* remove the variables below.  The trace will be written in the order
        \* of the fields of this record.
        damages |-> damages
        ,gocache |-> gocache
        ,restored |-> restored
        ,lock |-> lock
        ,linked |-> linked
        ,env |-> env
        ,bin |-> bin
        ,akeys |-> akeys
        ,dbg |-> dbg
        ,dirs |-> dirs
        ,dkeys |-> dkeys
        ,wrotein |-> wrotein
        ,kills |-> kills
        ,stamp |-> stamp
        ,pc |-> pc
        ,gkeys |-> gkeys
        ,used |-> used
        ,texit |-> texit
        ,kpc |-> kpc
        ,created |-> created
        ,tmp |-> tmp
        ,named |-> named
        ,forcea |-> forcea
        ,removed |-> removed
        ,tpc |-> tpc
        
        \* Put additional constant-, state-, and action-level expressions here:
        \* ,_stateNumber |-> _TEPosition
        \* ,_damagesUnchanged |-> damages = damages'
        
        \* Format the `damages` variable as Json value.
        \* ,_damagesJson |->
        \*     LET J == INSTANCE Json
        \*     IN J!ToJson(damages)
        
        \* Lastly, you may build expressions over arbitrary sets of states by
        \* leveraging the _TETrace operator.  For example, this is how to
        \* count the number of times a spec variable changed up to the current
        \* state in the trace.
        \* ,_damagesModCount |->
        \*     LET F[s \in DOMAIN _TETrace] ==
        \*         IF s = 1 THEN 0
        \*         ELSE IF _TETrace[s].damages # _TETrace[s-1].damages
        \*             THEN 1 + F[s-1] ELSE F[s-1]
        \*     IN F[_TEPosition - 1]
    ]

=============================================================================



Parsing and semantic processing can take forever if the trace below is long.
 In this case, it is advised to uncomment the module below to deserialize the
 trace from a generated binary file.

\*
\*---- MODULE PipelineMC_TETrace ----
\*EXTENDS IOUtils, TLC, PipelineMC
\*
\*trace == IODeserialize("PipelineMC_TTrace_1790205397.bin", TRUE)
\*
\*=============================================================================
\*

---- MODULE PipelineMC_TETrace ----
EXTENDS TLC, PipelineMC

trace == 
    <<
    ([kills |-> 0,texit |-> [t1 |-> "running", t2 |-> "running"],named |-> {},damages |-> 0,bin |-> "cur",gkeys |-> {},stamp |-> "cur",forcea |-> [t1 |-> FALSE, t2 |-> FALSE],used |-> [l1 |-> "-", l2 |-> "-"],tmp |-> "none",lock |-> "none",akeys |-> {},linked |-> {},kpc |-> (<<"t1", "lib", "asm2">> :> "none" @@ <<"t1", "lib", "compile">> :> "none" @@ <<"t1", "lib", "asm1">> :> "none" @@ <<"t1", "main", "asm2">> :> "none" @@ <<"t1", "main", "compile">> :> "none" @@ <<"t1", "main", "asm1">> :> "none" @@ <<"t2", "lib", "asm2">> :> "none" @@ <<"t2", "lib", "compile">> :> "none" @@ <<"t2", "lib", "asm1">> :> "none" @@ <<"t2", "main", "asm2">> :> "none" @@ <<"t2", "main", "compile">> :> "none" @@ <<"t2", "main", "asm1">> :> "none"),created |-> [t1 |-> {}, t2 |-> {}],tpc |-> [t1 |-> "idle", t2 |-> "idle"],dbg |-> [t1 |-> "none", t2 |-> "none"],dirs |-> {},wrotein |-> (<<"t1", "lib", "asm2">> :> {} @@ <<"t1", "lib", "compile">> :> {} @@ <<"t1", "lib", "asm1">> :> {} @@ <<"t1", "main", "asm2">> :> {} @@ <<"t1", "main", "compile">> :> {} @@ <<"t1", "main", "asm1">> :> {} @@ <<"t2", "lib", "asm2">> :> {} @@ <<"t2", "lib", "compile">> :> {} @@ <<"t2", "lib", "asm1">> :> {} @@ <<"t2", "main", "asm2">> :> {} @@ <<"t2", "main", "compile">> :> {} @@ <<"t2", "main", "asm1">> :> {}),dkeys |-> {},env |-> [t1 |-> "unset", t2 |-> "unset"],pc |-> [l1 |-> "idle", l2 |-> "idle"],removed |-> [t1 |-> {}, t2 |-> {}],gocache |-> {<<"lib", "c1">>, <<"main", "c1">>},restored |-> [t1 |-> {}, t2 |-> {}]]),
    ([kills |-> 0,texit |-> [t1 |-> "running", t2 |-> "running"],named |-> {},damages |-> 0,bin |-> "cur",gkeys |-> {},stamp |-> "cur",forcea |-> [t1 |-> FALSE, t2 |-> FALSE],used |-> [l1 |-> "-", l2 |-> "-"],tmp |-> "none",lock |-> "none",akeys |-> {},linked |-> {},kpc |-> (<<"t1", "lib", "asm2">> :> "none" @@ <<"t1", "lib", "compile">> :> "none" @@ <<"t1", "lib", "asm1">> :> "none" @@ <<"t1", "main", "asm2">> :> "none" @@ <<"t1", "main", "compile">> :> "none" @@ <<"t1", "main", "asm1">> :> "none" @@ <<"t2", "lib", "asm2">> :> "none" @@ <<"t2", "lib", "compile">> :> "none" @@ <<"t2", "lib", "asm1">> :> "none" @@ <<"t2", "main", "asm2">> :> "none" @@ <<"t2", "main", "compile">> :> "none" @@ <<"t2", "main", "asm1">> :> "none"),created |-> [t1 |-> {}, t2 |-> {}],tpc |-> [t1 |-> "idle", t2 |-> "started"],dbg |-> [t1 |-> "none", t2 |-> "none"],dirs |-> {},wrotein |-> (<<"t1", "lib", "asm2">> :> {} @@ <<"t1", "lib", "compile">> :> {} @@ <<"t1", "lib", "asm1">> :> {} @@ <<"t1", "main", "asm2">> :> {} @@ <<"t1", "main", "compile">> :> {} @@ <<"t1", "main", "asm1">> :> {} @@ <<"t2", "lib", "asm2">> :> {} @@ <<"t2", "lib", "compile">> :> {} @@ <<"t2", "lib", "asm1">> :> {} @@ <<"t2", "main", "asm2">> :> {} @@ <<"t2", "main", "compile">> :> {} @@ <<"t2", "main", "asm1">> :> {}),dkeys |-> {},env |-> [t1 |-> "unset", t2 |-> "unset"],pc |-> [l1 |-> "idle", l2 |-> "idle"],removed |-> [t1 |-> {}, t2 |-> {}],gocache |-> {<<"lib", "c1">>, <<"main", "c1">>},restored |-> [t1 |-> {}, t2 |-> {}]]),
    ([kills |-> 0,texit |-> [t1 |-> "running", t2 |-> "running"],named |-> {},damages |-> 0,bin |-> "cur",gkeys |-> {},stamp |-> "cur",forcea |-> [t1 |-> FALSE, t2 |-> FALSE],used |-> [l1 |-> "-", l2 |-> "-"],tmp |-> "none",lock |-> "none",akeys |-> {},linked |-> {},kpc |-> (<<"t1", "lib", "asm2">> :> "none" @@ <<"t1", "lib", "compile">> :> "none" @@ <<"t1", "lib", "asm1">> :> "none" @@ <<"t1", "main", "asm2">> :> "none" @@ <<"t1", "main", "compile">> :> "none" @@ <<"t1", "main", "asm1">> :> "none" @@ <<"t2", "lib", "asm2">> :> "none" @@ <<"t2", "lib", "compile">> :> "none" @@ <<"t2", "lib", "asm1">> :> "none" @@ <<"t2", "main", "asm2">> :> "none" @@ <<"t2", "main", "compile">> :> "none" @@ <<"t2", "main", "asm1">> :> "none"),created |-> [t1 |-> {}, t2 |-> {"t2"}],tpc |-> [t1 |-> "idle", t2 |-> "shared"],dbg |-> [t1 |-> "none", t2 |-> "none"],dirs |-> {"t2"},wrotein |-> (<<"t1", "lib", "asm2">> :> {} @@ <<"t1", "lib", "compile">> :> {} @@ <<"t1", "lib", "asm1">> :> {} @@ <<"t1", "main", "asm2">> :> {} @@ <<"t1", "main", "compile">> :> {} @@ <<"t1", "main", "asm1">> :> {} @@ <<"t2", "lib", "asm2">> :> {} @@ <<"t2", "lib", "compile">> :> {} @@ <<"t2", "lib", "asm1">> :> {} @@ <<"t2", "main", "asm2">> :> {} @@ <<"t2", "main", "compile">> :> {} @@ <<"t2", "main", "asm1">> :> {}),dkeys |-> {},env |-> [t1 |-> "unset", t2 |-> "t2"],pc |-> [l1 |-> "idle", l2 |-> "idle"],removed |-> [t1 |-> {}, t2 |-> {}],gocache |-> {<<"lib", "c1">>, <<"main", "c1">>},restored |-> [t1 |-> {}, t2 |-> {}]]),
    ([kills |-> 0,texit |-> [t1 |-> "running", t2 |-> "running"],named |-> {},damages |-> 0,bin |-> "cur",gkeys |-> {},stamp |-> "cur",forcea |-> [t1 |-> FALSE, t2 |-> FALSE],used |-> [l1 |-> "-", l2 |-> "-"],tmp |-> "none",lock |-> "none",akeys |-> {},linked |-> {},kpc |-> (<<"t1", "lib", "asm2">> :> "none" @@ <<"t1", "lib", "compile">> :> "none" @@ <<"t1", "lib", "asm1">> :> "none" @@ <<"t1", "main", "asm2">> :> "none" @@ <<"t1", "main", "compile">> :> "none" @@ <<"t1", "main", "asm1">> :> "none" @@ <<"t2", "lib", "asm2">> :> "none" @@ <<"t2", "lib", "compile">> :> "none" @@ <<"t2", "lib", "asm1">> :> "none" @@ <<"t2", "main", "asm2">> :> "none" @@ <<"t2", "main", "compile">> :> "none" @@ <<"t2", "main", "asm1">> :> "none"),created |-> [t1 |-> {}, t2 |-> {"t2"}],tpc |-> [t1 |-> "idle", t2 |-> "shared"],dbg |-> [t1 |-> "none", t2 |-> "claimed"],dirs |-> {"t2"},wrotein |-> (<<"t1", "lib", "asm2">> :> {} @@ <<"t1", "lib", "compile">> :> {} @@ <<"t1", "lib", "asm1">> :> {} @@ <<"t1", "main", "asm2">> :> {} @@ <<"t1", "main", "compile">> :> {} @@ <<"t1", "main", "asm1">> :> {} @@ <<"t2", "lib", "asm2">> :> {} @@ <<"t2", "lib", "compile">> :> {} @@ <<"t2", "lib", "asm1">> :> {} @@ <<"t2", "main", "asm2">> :> {} @@ <<"t2", "main", "compile">> :> {} @@ <<"t2", "main", "asm1">> :> {}),dkeys |-> {},env |-> [t1 |-> "unset", t2 |-> "t2"],pc |-> [l1 |-> "idle", l2 |-> "idle"],removed |-> [t1 |-> {}, t2 |-> {}],gocache |-> {<<"lib", "c1">>, <<"main", "c1">>},restored |-> [t1 |-> {}, t2 |-> {}]]),
    ([kills |-> 0,texit |-> [t1 |-> "running", t2 |-> "running"],named |-> {},damages |-> 0,bin |-> "cur",gkeys |-> {},stamp |-> "cur",forcea |-> [t1 |-> FALSE, t2 |-> FALSE],used |-> [l1 |-> "-", l2 |-> "-"],tmp |-> "none",lock |-> "none",akeys |-> {},linked |-> {},kpc |-> (<<"t1", "lib", "asm2">> :> "none" @@ <<"t1", "lib", "compile">> :> "none" @@ <<"t1", "lib", "asm1">> :> "none" @@ <<"t1", "main", "asm2">> :> "none" @@ <<"t1", "main", "compile">> :> "none" @@ <<"t1", "main", "asm1">> :> "none" @@ <<"t2", "lib", "asm2">> :> "none" @@ <<"t2", "lib", "compile">> :> "none" @@ <<"t2", "lib", "asm1">> :> "none" @@ <<"t2", "main", "asm2">> :> "none" @@ <<"t2", "main", "compile">> :> "none" @@ <<"t2", "main", "asm1">> :> "none"),created |-> [t1 |-> {}, t2 |-> {"t2"}],tpc |-> [t1 |-> "idle", t2 |-> "shared"],dbg |-> [t1 |-> "none", t2 |-> "checked"],dirs |-> {"t2"},wrotein |-> (<<"t1", "lib", "asm2">> :> {} @@ <<"t1", "lib", "compile">> :> {} @@ <<"t1", "lib", "asm1">> :> {} @@ <<"t1", "main", "asm2">> :> {} @@ <<"t1", "main", "compile">> :> {} @@ <<"t1", "main", "asm1">> :> {} @@ <<"t2", "lib", "asm2">> :> {} @@ <<"t2", "lib", "compile">> :> {} @@ <<"t2", "lib", "asm1">> :> {} @@ <<"t2", "main", "asm2">> :> {} @@ <<"t2", "main", "compile">> :> {} @@ <<"t2", "main", "asm1">> :> {}),dkeys |-> {},env |-> [t1 |-> "unset", t2 |-> "t2"],pc |-> [l1 |-> "idle", l2 |-> "idle"],removed |-> [t1 |-> {}, t2 |-> {}],gocache |-> {<<"lib", "c1">>, <<"main", "c1">>},restored |-> [t1 |-> {}, t2 |-> {}]]),
    ([kills |-> 0,texit |-> [t1 |-> "running", t2 |-> "running"],named |-> {},damages |-> 0,bin |-> "cur",gkeys |-> {},stamp |-> "cur",forcea |-> [t1 |-> FALSE, t2 |-> FALSE],used |-> [l1 |-> "-", l2 |-> "-"],tmp |-> "none",lock |-> "none",akeys |-> {},linked |-> {},kpc |-> (<<"t1", "lib", "asm2">> :> "none" @@ <<"t1", "lib", "compile">> :> "none" @@ <<"t1", "lib", "asm1">> :> "none" @@ <<"t1", "main", "asm2">> :> "none" @@ <<"t1", "main", "compile">> :> "none" @@ <<"t1", "main", "asm1">> :> "none" @@ <<"t2", "lib", "asm2">> :> "none" @@ <<"t2", "lib", "compile">> :> "none" @@ <<"t2", "lib", "asm1">> :> "none" @@ <<"t2", "main", "asm2">> :> "none" @@ <<"t2", "main", "compile">> :> "none" @@ <<"t2", "main", "asm1">> :> "none"),created |-> [t1 |-> {}, t2 |-> {"t2"}],tpc |-> [t1 |-> "idle", t2 |-> "going"],dbg |-> [t1 |-> "none", t2 |-> "checked"],dirs |-> {"t2"},wrotein |-> (<<"t1", "lib", "asm2">> :> {} @@ <<"t1", "lib", "compile">> :> {} @@ <<"t1", "lib", "asm1">> :> {} @@ <<"t1", "main", "asm2">> :> {} @@ <<"t1", "main", "compile">> :> {} @@ <<"t1", "main", "asm1">> :> {} @@ <<"t2", "lib", "asm2">> :> {} @@ <<"t2", "lib", "compile">> :> {} @@ <<"t2", "lib", "asm1">> :> {} @@ <<"t2", "main", "asm2">> :> {} @@ <<"t2", "main", "compile">> :> {} @@ <<"t2", "main", "asm1">> :> {}),dkeys |-> {},env |-> [t1 |-> "unset", t2 |-> "t2"],pc |-> [l1 |-> "idle", l2 |-> "idle"],removed |-> [t1 |-> {}, t2 |-> {}],gocache |-> {<<"lib", "c1">>, <<"main", "c1">>},restored |-> [t1 |-> {}, t2 |-> {}]]),
    ([kills |-> 0,texit |-> [t1 |-> "running", t2 |-> "running"],named |-> {},damages |-> 0,bin |-> "cur",gkeys |-> {},stamp |-> "cur",forcea |-> [t1 |-> FALSE, t2 |-> FALSE],used |-> [l1 |-> "-", l2 |-> "-"],tmp |-> "none",lock |-> "none",akeys |-> {},linked |-> {},kpc |-> (<<"t1", "lib", "asm2">> :> "none" @@ <<"t1", "lib", "compile">> :> "none" @@ <<"t1", "lib", "asm1">> :> "none" @@ <<"t1", "main", "asm2">> :> "none" @@ <<"t1", "main", "compile">> :> "none" @@ <<"t1", "main", "asm1">> :> "none" @@ <<"t2", "lib", "asm2">> :> "none" @@ <<"t2", "lib", "compile">> :> "none" @@ <<"t2", "lib", "asm1">> :> "none" @@ <<"t2", "main", "asm2">> :> "none" @@ <<"t2", "main", "compile">> :> "none" @@ <<"t2", "main", "asm1">> :> "none"),created |-> [t1 |-> {}, t2 |-> {"t2"}],tpc |-> [t1 |-> "idle", t2 |-> "going"],dbg |-> [t1 |-> "none", t2 |-> "checked"],dirs |-> {"t2"},wrotein |-> (<<"t1", "lib", "asm2">> :> {} @@ <<"t1", "lib", "compile">> :> {} @@ <<"t1", "lib", "asm1">> :> {} @@ <<"t1", "main", "asm2">> :> {} @@ <<"t1", "main", "compile">> :> {} @@ <<"t1", "main", "asm1">> :> {} @@ <<"t2", "lib", "asm2">> :> {} @@ <<"t2", "lib", "compile">> :> {} @@ <<"t2", "lib", "asm1">> :> {} @@ <<"t2", "main", "asm2">> :> {} @@ <<"t2", "main", "compile">> :> {} @@ <<"t2", "main", "asm1">> :> {}),dkeys |-> {},env |-> [t1 |-> "unset", t2 |-> "t2"],pc |-> [l1 |-> "idle", l2 |-> "wait"],removed |-> [t1 |-> {}, t2 |-> {}],gocache |-> {<<"lib", "c1">>, <<"main", "c1">>},restored |-> [t1 |-> {}, t2 |-> {}]]),
    ([kills |-> 0,texit |-> [t1 |-> "running", t2 |-> "running"],named |-> {},damages |-> 0,bin |-> "cur",gkeys |-> {},stamp |-> "cur",forcea |-> [t1 |-> FALSE, t2 |-> FALSE],used |-> [l1 |-> "-", l2 |-> "-"],tmp |-> "none",lock |-> "l2",akeys |-> {},linked |-> {},kpc |-> (<<"t1", "lib", "asm2">> :> "none" @@ <<"t1", "lib", "compile">> :> "none" @@ <<"t1", "lib", "asm1">> :> "none" @@ <<"t1", "main", "asm2">> :> "none" @@ <<"t1", "main", "compile">> :> "none" @@ <<"t1", "main", "asm1">> :> "none" @@ <<"t2", "lib", "asm2">> :> "none" @@ <<"t2", "lib", "compile">> :> "none" @@ <<"t2", "lib", "asm1">> :> "none" @@ <<"t2", "main", "asm2">> :> "none" @@ <<"t2", "main", "compile">> :> "none" @@ <<"t2", "main", "asm1">> :> "none"),created |-> [t1 |-> {}, t2 |-> {"t2"}],tpc |-> [t1 |-> "idle", t2 |-> "going"],dbg |-> [t1 |-> "none", t2 |-> "checked"],dirs |-> {"t2"},wrotein |-> (<<"t1", "lib", "asm2">> :> {} @@ <<"t1", "lib", "compile">> :> {} @@ <<"t1", "lib", "asm1">> :> {} @@ <<"t1", "main", "asm2">> :> {} @@ <<"t1", "main", "compile">> :> {} @@ <<"t1", "main", "asm1">> :> {} @@ <<"t2", "lib", "asm2">> :> {} @@ <<"t2", "lib", "compile">> :> {} @@ <<"t2", "lib", "asm1">> :> {} @@ <<"t2", "main", "asm2">> :> {} @@ <<"t2", "main", "compile">> :> {} @@ <<"t2", "main", "asm1">> :> {}),dkeys |-> {},env |-> [t1 |-> "unset", t2 |-> "t2"],pc |-> [l1 |-> "idle", l2 |-> "locked"],removed |-> [t1 |-> {}, t2 |-> {}],gocache |-> {<<"lib", "c1">>, <<"main", "c1">>},restored |-> [t1 |-> {}, t2 |-> {}]]),
    ([kills |-> 0,texit |-> [t1 |-> "running", t2 |-> "running"],named |-> {},damages |-> 0,bin |-> "cur",gkeys |-> {},stamp |-> "cur",forcea |-> [t1 |-> FALSE, t2 |-> FALSE],used |-> [l1 |-> "-", l2 |-> "-"],tmp |-> "none",lock |-> "l2",akeys |-> {},linked |-> {},kpc |-> (<<"t1", "lib", "asm2">> :> "none" @@ <<"t1", "lib", "compile">> :> "none" @@ <<"t1", "lib", "asm1">> :> "none" @@ <<"t1", "main", "asm2">> :> "none" @@ <<"t1", "main", "compile">> :> "none" @@ <<"t1", "main", "asm1">> :> "none" @@ <<"t2", "lib", "asm2">> :> "none" @@ <<"t2", "lib", "compile">> :> "none" @@ <<"t2", "lib", "asm1">> :> "none" @@ <<"t2", "main", "asm2">> :> "none" @@ <<"t2", "main", "compile">> :> "none" @@ <<"t2", "main", "asm1">> :> "none"),created |-> [t1 |-> {}, t2 |-> {"t2"}],tpc |-> [t1 |-> "idle", t2 |-> "going"],dbg |-> [t1 |-> "none", t2 |-> "checked"],dirs |-> {"t2"},wrotein |-> (<<"t1", "lib", "asm2">> :> {} @@ <<"t1", "lib", "compile">> :> {} @@ <<"t1", "lib", "asm1">> :> {} @@ <<"t1", "main", "asm2">> :> {} @@ <<"t1", "main", "compile">> :> {} @@ <<"t1", "main", "asm1">> :> {} @@ <<"t2", "lib", "asm2">> :> {} @@ <<"t2", "lib", "compile">> :> {} @@ <<"t2", "lib", "asm1">> :> {} @@ <<"t2", "main", "asm2">> :> {} @@ <<"t2", "main", "compile">> :> {} @@ <<"t2", "main", "asm1">> :> {}),dkeys |-> {},env |-> [t1 |-> "unset", t2 |-> "t2"],pc |-> [l1 |-> "idle", l2 |-> "run"],removed |-> [t1 |-> {}, t2 |-> {}],gocache |-> {<<"lib", "c1">>, <<"main", "c1">>},restored |-> [t1 |-> {}, t2 |-> {}]]),
    ([kills |-> 0,texit |-> [t1 |-> "running", t2 |-> "running"],named |-> {},damages |-> 0,bin |-> "cur",gkeys |-> {},stamp |-> "cur",forcea |-> [t1 |-> FALSE, t2 |-> FALSE],used |-> [l1 |-> "-", l2 |-> "cur"],tmp |-> "none",lock |-> "l2",akeys |-> {},linked |-> {},kpc |-> (<<"t1", "lib", "asm2">> :> "none" @@ <<"t1", "lib", "compile">> :> "none" @@ <<"t1", "lib", "asm1">> :> "none" @@ <<"t1", "main", "asm2">> :> "none" @@ <<"t1", "main", "compile">> :> "none" @@ <<"t1", "main", "asm1">> :> "none" @@ <<"t2", "lib", "asm2">> :> "none" @@ <<"t2", "lib", "compile">> :> "none" @@ <<"t2", "lib", "asm1">> :> "none" @@ <<"t2", "main", "asm2">> :> "none" @@ <<"t2", "main", "compile">> :> "none" @@ <<"t2", "main", "asm1">> :> "none"),created |-> [t1 |-> {}, t2 |-> {"t2"}],tpc |-> [t1 |-> "idle", t2 |-> "going"],dbg |-> [t1 |-> "none", t2 |-> "checked"],dirs |-> {"t2"},wrotein |-> (<<"t1", "lib", "asm2">> :> {} @@ <<"t1", "lib", "compile">> :> {} @@ <<"t1", "lib", "asm1">> :> {} @@ <<"t1", "main", "asm2">> :> {} @@ <<"t1", "main", "compile">> :> {} @@ <<"t1", "main", "asm1">> :> {} @@ <<"t2", "lib", "asm2">> :> {} @@ <<"t2", "lib", "compile">> :> {} @@ <<"t2", "lib", "asm1">> :> {} @@ <<"t2", "main", "asm2">> :> {} @@ <<"t2", "main", "compile">> :> {} @@ <<"t2", "main", "asm1">> :> {}),dkeys |-> {},env |-> [t1 |-> "unset", t2 |-> "t2"],pc |-> [l1 |-> "idle", l2 |-> "ran"],removed |-> [t1 |-> {}, t2 |-> {}],gocache |-> {<<"lib", "c1">>, <<"main", "c1">>},restored |-> [t1 |-> {}, t2 |-> {}]]),
    ([kills |-> 0,texit |-> [t1 |-> "running", t2 |-> "running"],named |-> {},damages |-> 0,bin |-> "cur",gkeys |-> {},stamp |-> "cur",forcea |-> [t1 |-> FALSE, t2 |-> FALSE],used |-> [l1 |-> "-", l2 |-> "cur"],tmp |-> "none",lock |-> "none",akeys |-> {},linked |-> {"l2"},kpc |-> (<<"t1", "lib", "asm2">> :> "none" @@ <<"t1", "lib", "compile">> :> "none" @@ <<"t1", "lib", "asm1">> :> "none" @@ <<"t1", "main", "asm2">> :> "none" @@ <<"t1", "main", "compile">> :> "none" @@ <<"t1", "main", "asm1">> :> "none" @@ <<"t2", "lib", "asm2">> :> "none" @@ <<"t2", "lib", "compile">> :> "none" @@ <<"t2", "lib", "asm1">> :> "none" @@ <<"t2", "main", "asm2">> :> "none" @@ <<"t2", "main", "compile">> :> "none" @@ <<"t2", "main", "asm1">> :> "none"),created |-> [t1 |-> {}, t2 |-> {"t2"}],tpc |-> [t1 |-> "idle", t2 |-> "going"],dbg |-> [t1 |-> "none", t2 |-> "checked"],dirs |-> {"t2"},wrotein |-> (<<"t1", "lib", "asm2">> :> {} @@ <<"t1", "lib", "compile">> :> {} @@ <<"t1", "lib", "asm1">> :> {} @@ <<"t1", "main", "asm2">> :> {} @@ <<"t1", "main", "compile">> :> {} @@ <<"t1", "main", "asm1">> :> {} @@ <<"t2", "lib", "asm2">> :> {} @@ <<"t2", "lib", "compile">> :> {} @@ <<"t2", "lib", "asm1">> :> {} @@ <<"t2", "main", "asm2">> :> {} @@ <<"t2", "main", "compile">> :> {} @@ <<"t2", "main", "asm1">> :> {}),dkeys |-> {},env |-> [t1 |-> "unset", t2 |-> "t2"],pc |-> [l1 |-> "idle", l2 |-> "done"],removed |-> [t1 |-> {}, t2 |-> {}],gocache |-> {<<"lib", "c1">>, <<"main", "c1">>},restored |-> [t1 |-> {}, t2 |-> {}]]),
    ([kills |-> 0,texit |-> [t1 |-> "running", t2 |-> "running"],named |-> {},damages |-> 0,bin |-> "cur",gkeys |-> {},stamp |-> "cur",forcea |-> [t1 |-> FALSE, t2 |-> FALSE],used |-> [l1 |-> "-", l2 |-> "cur"],tmp |-> "none",lock |-> "none",akeys |-> {},linked |-> {"l2"},kpc |-> (<<"t1", "lib", "asm2">> :> "none" @@ <<"t1", "lib", "compile">> :> "none" @@ <<"t1", "lib", "asm1">> :> "none" @@ <<"t1", "main", "asm2">> :> "none" @@ <<"t1", "main", "compile">> :> "none" @@ <<"t1", "main", "asm1">> :> "none" @@ <<"t2", "lib", "asm2">> :> "none" @@ <<"t2", "lib", "compile">> :> "none" @@ <<"t2", "lib", "asm1">> :> "none" @@ <<"t2", "main", "asm2">> :> "none" @@ <<"t2", "main", "compile">> :> "none" @@ <<"t2", "main", "asm1">> :> "none"),created |-> [t1 |-> {}, t2 |-> {"t2"}],tpc |-> [t1 |-> "idle", t2 |-> "godone"],dbg |-> [t1 |-> "none", t2 |-> "checked"],dirs |-> {"t2"},wrotein |-> (<<"t1", "lib", "asm2">> :> {} @@ <<"t1", "lib", "compile">> :> {} @@ <<"t1", "lib", "asm1">> :> {} @@ <<"t1", "main", "asm2">> :> {} @@ <<"t1", "main", "compile">> :> {} @@ <<"t1", "main", "asm1">> :> {} @@ <<"t2", "lib", "asm2">> :> {} @@ <<"t2", "lib", "compile">> :> {} @@ <<"t2", "lib", "asm1">> :> {} @@ <<"t2", "main", "asm2">> :> {} @@ <<"t2", "main", "compile">> :> {} @@ <<"t2", "main", "asm1">> :> {}),dkeys |-> {},env |-> [t1 |-> "unset", t2 |-> "t2"],pc |-> [l1 |-> "idle", l2 |-> "done"],removed |-> [t1 |-> {}, t2 |-> {}],gocache |-> {<<"lib", "c1">>, <<"main", "c1">>},restored |-> [t1 |-> {}, t2 |-> {}]]),
    ([kills |-> 0,texit |-> [t1 |-> "running", t2 |-> "running"],named |-> {},damages |-> 0,bin |-> "cur",gkeys |-> {},stamp |-> "cur",forcea |-> [t1 |-> FALSE, t2 |-> FALSE],used |-> [l1 |-> "-", l2 |-> "cur"],tmp |-> "none",lock |-> "none",akeys |-> {},linked |-> {"l2"},kpc |-> (<<"t1", "lib", "asm2">> :> "none" @@ <<"t1", "lib", "compile">> :> "none" @@ <<"t1", "lib", "asm1">> :> "none" @@ <<"t1", "main", "asm2">> :> "none" @@ <<"t1", "main", "compile">> :> "none" @@ <<"t1", "main", "asm1">> :> "none" @@ <<"t2", "lib", "asm2">> :> "none" @@ <<"t2", "lib", "compile">> :> "none" @@ <<"t2", "lib", "asm1">> :> "none" @@ <<"t2", "main", "asm2">> :> "none" @@ <<"t2", "main", "compile">> :> "none" @@ <<"t2", "main", "asm1">> :> "none"),created |-> [t1 |-> {}, t2 |-> {"t2"}],tpc |-> [t1 |-> "idle", t2 |-> "restored"],dbg |-> [t1 |-> "none", t2 |-> "checked"],dirs |-> {"t2"},wrotein |-> (<<"t1", "lib", "asm2">> :> {} @@ <<"t1", "lib", "compile">> :> {} @@ <<"t1", "lib", "asm1">> :> {} @@ <<"t1", "main", "asm2">> :> {} @@ <<"t1", "main", "compile">> :> {} @@ <<"t1", "main", "asm1">> :> {} @@ <<"t2", "lib", "asm2">> :> {} @@ <<"t2", "lib", "compile">> :> {} @@ <<"t2", "lib", "asm1">> :> {} @@ <<"t2", "main", "asm2">> :> {} @@ <<"t2", "main", "compile">> :> {} @@ <<"t2", "main", "asm1">> :> {}),dkeys |-> {},env |-> [t1 |-> "unset", t2 |-> "t2"],pc |-> [l1 |-> "idle", l2 |-> "done"],removed |-> [t1 |-> {}, t2 |-> {}],gocache |-> {<<"lib", "c1">>, <<"main", "c1">>},restored |-> [t1 |-> {}, t2 |-> {}]]),
    ([kills |-> 0,texit |-> [t1 |-> "running", t2 |-> "ok"],named |-> {},damages |-> 0,bin |-> "cur",gkeys |-> {},stamp |-> "cur",forcea |-> [t1 |-> FALSE, t2 |-> FALSE],used |-> [l1 |-> "-", l2 |-> "cur"],tmp |-> "none",lock |-> "none",akeys |-> {},linked |-> {"l2"},kpc |-> (<<"t1", "lib", "asm2">> :> "none" @@ <<"t1", "lib", "compile">> :> "none" @@ <<"t1", "lib", "asm1">> :> "none" @@ <<"t1", "main", "asm2">> :> "none" @@ <<"t1", "main", "compile">> :> "none" @@ <<"t1", "main", "asm1">> :> "none" @@ <<"t2", "lib", "asm2">> :> "none" @@ <<"t2", "lib", "compile">> :> "none" @@ <<"t2", "lib", "asm1">> :> "none" @@ <<"t2", "main", "asm2">> :> "none" @@ <<"t2", "main", "compile">> :> "none" @@ <<"t2", "main", "asm1">> :> "none"),created |-> [t1 |-> {}, t2 |-> {"t2"}],tpc |-> [t1 |-> "idle", t2 |-> "cleaned"],dbg |-> [t1 |-> "none", t2 |-> "checked"],dirs |-> {},wrotein |-> (<<"t1", "lib", "asm2">> :> {} @@ <<"t1", "lib", "compile">> :> {} @@ <<"t1", "lib", "asm1">> :> {} @@ <<"t1", "main", "asm2">> :> {} @@ <<"t1", "main", "compile">> :> {} @@ <<"t1", "main", "asm1">> :> {} @@ <<"t2", "lib", "asm2">> :> {} @@ <<"t2", "lib", "compile">> :> {} @@ <<"t2", "lib", "asm1">> :> {} @@ <<"t2", "main", "asm2">> :> {} @@ <<"t2", "main", "compile">> :> {} @@ <<"t2", "main", "asm1">> :> {}),dkeys |-> {},env |-> [t1 |-> "unset", t2 |-> "t2"],pc |-> [l1 |-> "idle", l2 |-> "done"],removed |-> [t1 |-> {}, t2 |-> {"t2"}],gocache |-> {<<"lib", "c1">>, <<"main", "c1">>},restored |-> [t1 |-> {}, t2 |-> {}]])
    >>
----


=============================================================================

---- CONFIG PipelineMC_TTrace_1790205397 ----
CONSTANTS
    Procs = { "l1" , "l2" }
    Tops <- MCTops
    LinkTop <- MCLinkTop
    LinkNeeds <- MCLinkNeeds
    TransDeps <- MCTransDeps
    TmpRename = TRUE
    CopyMode = TRUE
    MaxKills = 0
    MaxDamage = 0
    InitStates <- InitBuilt
    PkgSeq <- MCPkgSeq
    Imports <- MCImports
    AsmPkgs <- MCAsm
    RealAsm = { "asm2" }
    CfgOf <- MCSameCfg
    MayFail = FALSE
    ReflectPkgs <- MCReflect
    ObfPkgs <- MCObf
    NamedAsmPkgs <- MCAsm
    InitGo <- MCWarmGo
    InitGk <- MCEmpty
    DirName <- MCFreshDirs
    InheritFrom <- MCNoInherit
    DbgTops <- MCDbgT2
    InitDk <- MCEmpty
    ForceAll = FALSE
    ForgetInherited = TRUE

INVARIANT
    _inv

CHECK_DEADLOCK
    \* CHECK_DEADLOCK off because of PROPERTY or INVARIANT above.
    FALSE

INIT
    _init

NEXT
    _next

CONSTANT
    _TETrace <- _trace

ALIAS
    _expression
=============================================================================
\* Generated on Wed Sep 23 23:17:19 UTC 2026