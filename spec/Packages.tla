----------------------------- MODULE Packages -----------------------------
(* Which packages does GOGARBLE select?  (property C14)                      *)
(*                                                                          *)
(* Strings are sequences of one-character strings, so that the two string   *)
(* algorithms that take the decision can be transcribed literally:          *)
(*   - module.MatchPrefixPatterns (golang.org/x/mod/module/module.go)        *)
(*   - the switch of appendListedPackages (cache_shared.go) that sets        *)
(*     ToObfuscate while `go list` output is read, and the "does not match   *)
(*     any packages" error after the loop.                                   *)
(* The SPECIFICATION side is an independent, declarative reading of the      *)
(* pattern language on path ELEMENTS (a pattern with n elements selects a    *)
(* package iff its elements match the first n elements of the path, "*"      *)
(* standing for any run of characters inside one element; lists are unions;  *)
(* a trailing "/" and empty list entries are ignored), of garble's special   *)
(* rules (runtime and its dependencies never; packages without Go files      *)
(* never; test mains and command-line-arguments always; test variants are    *)
(* judged by the package they test) and of the empty-match rule.             *)
(*                                                                          *)
(* The state space is  pattern lists (<= MaxPatterns entries of a pattern    *)
(* alphabet) x import-graph orientations of the module x {build, test, file}.*)
EXTENDS Naturals, Sequences, FiniteSets, TLC, Json, SequencesExt

CONSTANTS
  MaxPatterns,   \* length of the enumerated pattern lists (1..MaxPatterns)
  FoldedListed,  \* BOOLEAN: the linknamed std packages are folded into the top-level `go list`
                 \*          (as appendListedPackages does); FALSE = only the dependencies are listed
  TableFile      \* file the table is serialised to ("" = none)

(* ------------------------------------------------------------ characters and strings *)
RECURSIVE JoinWith(_, _)
JoinWith(ss, sep) == IF ss = <<>> THEN <<>>
                     ELSE IF Len(ss) = 1 THEN ss[1]
                     ELSE ss[1] \o sep \o JoinWith(Tail(ss), sep)
Path(elems) == JoinWith(elems, <<"/">>)
RECURSIVE Text(_)
Text(cs) == IF cs = <<>> THEN "" ELSE Head(cs) \o Text(Tail(cs))   \* a real string, for the table

e_example == <<"e", "x", "a", "m", "p", "l", "e", ".", "c", "o", "m">>
e_mod == <<"m", "o", "d">>
e_cmd == <<"c", "m", "d">>
e_lib == <<"l", "i", "b">>
e_libx == <<"l", "i", "b", "x">>
e_sub == <<"s", "u", "b">>
e_li == <<"l", "i">>
e_other == <<"o", "t", "h", "e", "r">>
e_star == <<"*">>
e_libstar == <<"l", "i", "b", "*">>
e_exstar == <<"e", "x", "*">>
e_runtime == <<"r", "u", "n", "t", "i", "m", "e">>
e_internal == <<"i", "n", "t", "e", "r", "n", "a", "l">>
e_abi == <<"a", "b", "i">>
e_math == <<"m", "a", "t", "h">>
e_bits == <<"b", "i", "t", "s">>
e_unicode == <<"u", "n", "i", "c", "o", "d", "e">>
e_utf8 == <<"u", "t", "f", "8">>
e_net == <<"n", "e", "t">>
e_syscall == <<"s", "y", "s", "c", "a", "l", "l">>
e_windows == <<"w", "i", "n", "d", "o", "w", "s">>
e_cgo == <<"c", "g", "o">>
e_crypto == <<"c", "r", "y", "p", "t", "o">>
e_fips140 == <<"f", "i", "p", "s", "1", "4", "0">>
e_plugin == <<"p", "l", "u", "g", "i", "n">>
e_unnamed == <<"u", "n", "n", "a", "m", "e", "d">>
s_dottest == <<".", "t", "e", "s", "t">>
s_undertest == <<"_", "t", "e", "s", "t">>
s_cla == <<"c", "o", "m", "m", "a", "n", "d", "-", "l", "i", "n", "e", "-", "a", "r", "g", "u", "m", "e", "n", "t", "s">>

S_cmd == Path(<<e_example, e_mod, e_cmd>>)
S_lib == Path(<<e_example, e_mod, e_lib>>)
S_libx == Path(<<e_example, e_mod, e_libx>>)
S_sub == Path(<<e_example, e_mod, e_lib, e_sub>>)
S_runtime == e_runtime
S_abi == Path(<<e_internal, e_abi>>)
S_bits == Path(<<e_math, e_bits>>)
S_utf8 == Path(<<e_unicode, e_utf8>>)
S_net == e_net
S_windows == Path(<<e_internal, e_syscall, e_windows>>)
(* import paths of the test variants, as `go list -test` prints them *)
S_lib_fortest == S_lib \o <<" ", "[">> \o S_lib \o s_dottest \o <<"]">>
S_lib_xtest == S_lib \o s_undertest \o <<" ", "[">> \o S_lib \o s_dottest \o <<"]">>
S_lib_testmain == S_lib \o s_dottest

(* ------------------------------------------------------------ the packages *)
(* id: short name used by the harness; path: ImportPath; fortest: ForTest ("" = <<>>);   *)
(* name: package name; files: has CompiledGoFiles; std; built: compiled in this scenario *)
(* (a dependency of what is built) as opposed to merely listed                           *)
Pkg(id, path, fortest, name, files, std, built) ==
  [id |-> id, path |-> path, fortest |-> fortest, name |-> name, files |-> files, std |-> std, built |-> built]

StdBuilt == {Pkg("runtime", S_runtime, <<>>, "runtime", TRUE, TRUE, TRUE),
             Pkg("internal/abi", S_abi, <<>>, "abi", TRUE, TRUE, TRUE),
             Pkg("math/bits", S_bits, <<>>, "bits", TRUE, TRUE, TRUE),
             Pkg("unicode/utf8", S_utf8, <<>>, "utf8", TRUE, TRUE, TRUE)}
(* reached only through the fold of runtimeAndLinknamed into the top-level go list *)
StdFolded == {Pkg("net", S_net, <<>>, "net", TRUE, TRUE, FALSE),
              Pkg("math", e_math, <<>>, "math", TRUE, TRUE, FALSE),
              Pkg("internal/syscall/windows", S_windows, <<>>, "windows", FALSE, TRUE, FALSE)}
StdListed == StdBuilt \cup (IF FoldedListed THEN StdFolded ELSE {})

ModBuild == {Pkg("cmd", S_cmd, <<>>, "main", TRUE, FALSE, TRUE),
             Pkg("lib", S_lib, <<>>, "lib", TRUE, FALSE, TRUE),
             Pkg("libx", S_libx, <<>>, "libx", TRUE, FALSE, TRUE),
             Pkg("sub", S_sub, <<>>, "sub", TRUE, FALSE, TRUE)}
(* `garble test ./lib`: lib itself is listed but only its test variants are compiled.      *)
(* `go list -test -compiled` (go1.26) reports NO CompiledGoFiles for the generated test    *)
(* main (its GoFiles entry is a file of the build cache), so files = FALSE for it: the     *)
(* "no Go files" case of the switch comes before the ".test" case, which is therefore dead *)
(* for real test mains (observed on the real tool: compile-start obfuscate=false).         *)
ModTest == {Pkg("lib", S_lib, <<>>, "lib", TRUE, FALSE, FALSE),
            Pkg("lib[test]", S_lib_fortest, S_lib, "lib", TRUE, FALSE, TRUE),
            Pkg("lib_test", S_lib_xtest, S_lib, "lib_test", TRUE, FALSE, TRUE),
            Pkg("lib.test", S_lib_testmain, <<>>, "main", FALSE, FALSE, TRUE),
            Pkg("sub", S_sub, <<>>, "sub", TRUE, FALSE, TRUE)}

(* `garble build main.go`: the main package is called command-line-arguments *)
ModFile == {Pkg("cla", s_cla, <<>>, "main", TRUE, FALSE, TRUE)}

Scenarios == {"build", "test", "file"}
Listed(scen) == (CASE scen = "build" -> ModBuild [] scen = "test" -> ModTest [] OTHER -> ModFile) \cup StdListed
Built(scen) == {p \in Listed(scen) : p.built}

(* runtimeAndDeps of go_std_tables.go, restricted to the packages of the model *)
RuntimeAndDeps == {S_runtime, S_abi, S_bits}

(* ------------------------------------------------------------ the pattern alphabet *)
Patterns ==
  [lib |-> S_lib,                                      \* exact; also a prefix of lib/sub, NOT of libx
   libx |-> S_libx,
   sub |-> S_sub,
   cmd |-> S_cmd,
   mod |-> Path(<<e_example, e_mod>>),                 \* the whole module, by prefix
   libstar |-> Path(<<e_example, e_mod, e_libstar>>),  \* glob inside an element: lib, libx, lib/sub
   starlibx |-> Path(<<e_example, e_star, e_libx>>),   \* a whole element as "*"
   starsub |-> Path(<<e_example, e_mod, e_star, e_sub>>),
   libslash |-> S_lib \o <<"/">>,                      \* trailing slash is trimmed
   li |-> Path(<<e_example, e_mod, e_li>>),            \* an element prefix is NOT a match
   other |-> Path(<<e_example, e_other>>),             \* nothing
   modlib |-> Path(<<e_mod, e_lib>>),                  \* a suffix is not a prefix
   star |-> e_star,                                    \* everything
   exstar |-> e_exstar,                                \* glob in the first element: the module
   runtime |-> e_runtime,                              \* only never-obfuscated packages (+ runtime/...)
   unicode |-> e_unicode,                              \* std, by prefix
   utf8 |-> S_utf8,                                    \* std, exact
   math |-> e_math,                                    \* built: only math/bits, a runtime dependency (+ math, merely listed)
   net |-> e_net,                                      \* a std package that is listed but not built
   empty |-> <<>>]                                     \* an empty list entry (",x", "x,", unset)
PatIds == DOMAIN Patterns

RECURSIVE SeqsOfLen(_, _)
SeqsOfLen(S, n) == IF n = 0 THEN {<<>>} ELSE {Append(q, x) : q \in SeqsOfLen(S, n - 1), x \in S}
PatLists == UNION {SeqsOfLen(PatIds, n) : n \in 1..MaxPatterns}

ListText(pl) == JoinWith([k \in 1..Len(pl) |-> Patterns[pl[k]]], <<",">>)
(* main.go: sharedCache.GOGARBLE = cmp.Or(os.Getenv("GOGARBLE"), "*") *)
Gogarble(pl) == IF ListText(pl) = <<>> THEN e_star ELSE ListText(pl)

(* ------------------------------------------------------------ transcription: x/mod *)
RECURSIVE IndexOf(_, _, _)
IndexOf(cs, c, k) == IF k > Len(cs) THEN 0 ELSE IF cs[k] = c THEN k ELSE IndexOf(cs, c, k + 1)
RECURSIVE CountFrom(_, _, _)
CountFrom(cs, c, k) == IF k > Len(cs) THEN 0 ELSE (IF cs[k] = c THEN 1 ELSE 0) + CountFrom(cs, c, k + 1)
CountOf(cs, c) == CountFrom(cs, c, 1)
HasPrefix(cs, pre) == Len(cs) >= Len(pre) /\ SubSeq(cs, 1, Len(pre)) = pre
HasSuffix(cs, suf) == Len(cs) >= Len(suf) /\ SubSeq(cs, Len(cs) - Len(suf) + 1, Len(cs)) = suf
TrimSuffix(cs, suf) == IF HasSuffix(cs, suf) THEN SubSeq(cs, 1, Len(cs) - Len(suf)) ELSE cs

(* path.Match for patterns made of literal characters and "*":                  *)
(* "*" matches any sequence of non-"/" characters                                *)
(* (index based: i walks the pattern, j the name)                                *)
RECURSIVE PathMatchAt(_, _, _, _)
PathMatchAt(pat, i, name, j) ==
  IF i > Len(pat) THEN j > Len(name)
  ELSE IF pat[i] = "*"
       THEN \/ PathMatchAt(pat, i + 1, name, j)
            \/ (j <= Len(name) /\ name[j] # "/" /\ PathMatchAt(pat, i, name, j + 1))
       ELSE j <= Len(name) /\ name[j] = pat[i] /\ PathMatchAt(pat, i + 1, name, j + 1)
PathMatch(pat, name) == PathMatchAt(pat, 1, name, 1)

(*  n := strings.Count(glob, "/"); prefix := target                              *)
(*  for i := 0; i < len(target); i++ {                                           *)
(*      if target[i] == '/' { if n == 0 { prefix = target[:i]; break }; n-- } }   *)
(* result: <<prefix, n>>                                                         *)
RECURSIVE Walk(_, _, _)
Walk(target, k, n) ==
  IF k > Len(target) THEN <<target, n>>
  ELSE IF target[k] = "/"
       THEN IF n = 0 THEN <<SubSeq(target, 1, k - 1), n>> ELSE Walk(target, k + 1, n - 1)
       ELSE Walk(target, k + 1, n)

RECURSIVE MatchPrefixPatterns(_, _)
MatchPrefixPatterns(globs, target) ==
  IF globs = <<>> THEN FALSE
  ELSE LET cut == IndexOf(globs, ",", 1)                           \* strings.Cut(globs, ",")
           glob0 == IF cut > 0 THEN SubSeq(globs, 1, cut - 1) ELSE globs
           rest == IF cut > 0 THEN SubSeq(globs, cut + 1, Len(globs)) ELSE <<>>
           glob == TrimSuffix(glob0, <<"/">>)
       IN IF glob = <<>> THEN MatchPrefixPatterns(rest, target)    \* continue
          ELSE LET w == Walk(target, 1, CountOf(glob, "/"))
               IN IF w[2] > 0 THEN MatchPrefixPatterns(rest, target)   \* not enough prefix elements
                  ELSE IF PathMatch(glob, w[1]) THEN TRUE
                  ELSE MatchPrefixPatterns(rest, target)

(* ------------------------------------------------------------ transcription: garble *)
(* path := pkg.ImportPath; if pkg.ForTest != "" { path = pkg.ForTest } *)
DecisionPath(p) == IF p.fortest # <<>> THEN p.fortest ELSE p.path

ToObfuscate(p, g) ==
  LET path == DecisionPath(p) IN
  IF \/ path \in RuntimeAndDeps
     \/ path = Path(<<e_runtime, e_cgo>>)
     \/ path = Path(<<e_crypto, e_internal, e_fips140>>)
     \/ HasPrefix(path, Path(<<e_crypto, e_internal, e_fips140>>) \o <<"/">>)
  THEN FALSE
  ELSE IF ~p.files THEN FALSE
  ELSE \/ (p.name = "main" /\ HasSuffix(path, s_dottest))
       \/ path = s_cla
       \/ HasPrefix(path, Path(<<e_plugin, e_unnamed>>))
       \/ MatchPrefixPatterns(g, path)

(* if mainBuild && !anyToObfuscate && !MatchPrefixPatterns(GOGARBLE, "runtime") { return error } *)
AnyToObfuscate(scen, g) == \E p \in Listed(scen) : ToObfuscate(p, g)
RejectedNoMatch(scen, g) == ~AnyToObfuscate(scen, g) /\ ~MatchPrefixPatterns(g, S_runtime)

(* ------------------------------------------------------------ specification side *)
RECURSIVE SplitOn(_, _)
SplitOn(cs, c) == LET k == IndexOf(cs, c, 1) IN
                  IF k = 0 THEN <<cs>> ELSE <<SubSeq(cs, 1, k - 1)>> \o SplitOn(SubSeq(cs, k + 1, Len(cs)), c)

(* glob inside one element, for element patterns with at most one "*" *)
ElemMatches(pe, te) ==
  LET k == IndexOf(pe, "*", 1) IN
  IF k = 0 THEN pe = te
  ELSE LET pre == SubSeq(pe, 1, k - 1)
           suf == SubSeq(pe, k + 1, Len(pe))
       IN /\ Len(te) >= Len(pre) + Len(suf)
          /\ HasPrefix(te, pre)
          /\ HasSuffix(te, suf)
AtMostOneStar(pe) == CountOf(pe, "*") <= 1

PatternSelects(pat, path) ==
  LET trimmed == IF pat # <<>> /\ pat[Len(pat)] = "/" THEN SubSeq(pat, 1, Len(pat) - 1) ELSE pat
      pes == SplitOn(trimmed, "/")
      tes == SplitOn(path, "/")
  IN /\ trimmed # <<>>
     /\ Len(pes) <= Len(tes)
     /\ \A k \in 1..Len(pes) : ElemMatches(pes[k], tes[k])

EffectiveList(pl) == IF ListText(pl) = <<>> THEN <<e_star>> ELSE [k \in 1..Len(pl) |-> Patterns[pl[k]]]
Selected(p, pl) == \E k \in 1..Len(EffectiveList(pl)) : PatternSelects(EffectiveList(pl)[k], DecisionPath(p))
Never(p) == DecisionPath(p) \in RuntimeAndDeps \/ ~p.files
Always(p) == (p.name = "main" /\ HasSuffix(DecisionPath(p), s_dottest)) \/ DecisionPath(p) = s_cla
ShouldObfuscate(p, pl) == ~Never(p) /\ (Always(p) \/ Selected(p, pl))

ASSUME \A id \in PatIds : \A pe \in {SplitOn(Patterns[id], "/")[k] : k \in 1..Len(SplitOn(Patterns[id], "/"))} : AtMostOneStar(pe)

(* ------------------------------------------------------------ import graphs of the module *)
(* edges <<importer, imported>> between package ids; every graph is a DAG rooted in cmd   *)
Graphs ==
  [diamond |-> {<<"cmd", "lib">>, <<"cmd", "libx">>, <<"libx", "lib">>, <<"lib", "sub">>},
   libfirst |-> {<<"cmd", "lib">>, <<"cmd", "libx">>, <<"lib", "libx">>, <<"libx", "sub">>},
   chain |-> {<<"cmd", "lib">>, <<"lib", "libx">>, <<"libx", "sub">>, <<"lib", "sub">>},
   chainx |-> {<<"cmd", "libx">>, <<"libx", "lib">>, <<"lib", "sub">>, <<"cmd", "sub">>}]
GraphIds == DOMAIN Graphs

ById(scen, id) == CHOOSE p \in Listed(scen) : p.id = id
Ids(scen) == {p.id : p \in Listed(scen)}

(* The two string algorithms are evaluated once per (pattern list, decision path) and   *)
(* kept in constant tables; the invariants and the exported table read these.          *)
DecisionPaths == {DecisionPath(p) : p \in UNION {Listed(sc) : sc \in Scenarios}} \cup {S_runtime}
MatchTable == [pl \in PatLists |-> [path \in DecisionPaths |-> MatchPrefixPatterns(Gogarble(pl), path)]]
SelectTable == [pl \in PatLists |-> [path \in DecisionPaths |->
                  \E k \in 1..Len(EffectiveList(pl)) : PatternSelects(EffectiveList(pl)[k], path)]]

(* ToObfuscate with the call of MatchPrefixPatterns read from MatchTable *)
ToObf(p, pl) ==
  LET path == DecisionPath(p) IN
  IF \/ path \in RuntimeAndDeps
     \/ path = Path(<<e_runtime, e_cgo>>)
     \/ path = Path(<<e_crypto, e_internal, e_fips140>>)
     \/ HasPrefix(path, Path(<<e_crypto, e_internal, e_fips140>>) \o <<"/">>)
  THEN FALSE
  ELSE IF ~p.files THEN FALSE
  ELSE \/ (p.name = "main" /\ HasSuffix(path, s_dottest))
       \/ path = s_cla
       \/ HasPrefix(path, Path(<<e_plugin, e_unnamed>>))
       \/ MatchTable[pl][path]
Rejected(sc, pl) == ~(\E p \in Listed(sc) : ToObf(p, pl)) /\ ~MatchTable[pl][S_runtime]
Sel(p, pl) == SelectTable[pl][DecisionPath(p)]
Should(p, pl) == ~Never(p) /\ (Always(p) \/ Sel(p, pl))

(* edges whose ends fall on different sides: "po" = a plain package imports an obfuscated one *)
CrossEdges(gid, pl) ==
  {<<e[1], e[2], IF ToObf(ById("build", e[1]), pl) THEN "op" ELSE "po">> :
      e \in {x \in Graphs[gid] : ToObf(ById("build", x[1]), pl) # ToObf(ById("build", x[2]), pl)}}

(* ------------------------------------------------------------ state space *)
\* (v-prefixed: TLC identifies state variables by name, see StructId.tla)
VARIABLES vpl, vgr, vsc
vars == <<vpl, vgr, vsc>>
Init == vpl \in PatLists /\ vgr \in GraphIds /\ vsc \in Scenarios
Next == UNCHANGED vars
Spec == Init /\ [][Next]_vars

(* ToObf is ToObfuscate: the table lookup stands for the call it replaces (checked on    *)
(* every pattern list and scenario for one package, and for all of them in the -thorough  *)
(* configuration; the graph plays no role in the decision)                                *)
TableIsCall == vgr = "diamond" => \A p \in {q \in Listed(vsc) : q.id \in {"lib", "cla", "runtime"}} : ToObf(p, vpl) = ToObfuscate(p, Gogarble(vpl))
TableIsCallAll == vgr = "diamond" =>
                  /\ \A p \in Listed(vsc) : /\ ToObf(p, vpl) = ToObfuscate(p, Gogarble(vpl))
                                             /\ Sel(p, vpl) = Selected(p, vpl)
                  /\ Rejected(vsc, vpl) = RejectedNoMatch(vsc, Gogarble(vpl))

(* the decision taken by the code is the specified one, for every listed package *)
Exact == \A p \in Listed(vsc) : ToObf(p, vpl) = Should(p, vpl)

NeverRuntime == \A p \in Listed(vsc) : DecisionPath(p) \in RuntimeAndDeps => ~ToObf(p, vpl)

(* sibling prefixes: the pattern .../lib alone never selects .../libx *)
SiblingNotPrefix == (vpl = <<"lib">> /\ vsc = "build") => /\ ~ToObf(ById(vsc, "libx"), vpl)
                                                          /\ ToObf(ById(vsc, "sub"), vpl)

(* test variants follow the package under test (ForTest) *)
TestVariants == vsc = "test" =>
  /\ ToObf(ById("test", "lib[test]"), vpl) = ToObf(ById("test", "lib"), vpl)
  /\ ToObf(ById("test", "lib_test"), vpl) = ToObf(ById("test", "lib"), vpl)
(* a test main WITH listed files would always be obfuscated; the real one has none (see ModTest) *)
TestMainRule == (vsc = "test" /\ vgr = "diamond") => \A fl \in BOOLEAN :
  ToObfuscate(Pkg("lib.test", S_lib_testmain, <<>>, "main", fl, FALSE, TRUE), Gogarble(vpl)) = fl

(* when the specification wants nothing that is LISTED obfuscated, the command is rejected, *)
(* unless the user named the runtime (cache_shared.go: "GOGARBLE=* garble build runtime")   *)
EmptyMatchRejectedListed ==
  ((\A p \in Listed(vsc) : ~Should(p, vpl)) /\ ~Sel(ById(vsc, "runtime"), vpl)) => Rejected(vsc, vpl)
(* the property: a pattern list that selects nothing that is being BUILT is rejected *)
EmptyMatchRejected == (\A p \in Built(vsc) : ~Sel(p, vpl)) => Rejected(vsc, vpl)
EmptyMatchRejectedBuild == vsc = "build" => EmptyMatchRejected
(* stronger reading (information): nothing obfuscated at all => rejected *)
NothingObfuscatedRejected == (\A p \in Built(vsc) : ~ToObf(p, vpl)) => Rejected(vsc, vpl)

(* the enumerated space contains, for the sibling pair, a crossing edge in both directions *)
ASSUME \A dir \in {"op", "po"} :
         \E gid \in GraphIds, pl \in SeqsOfLen(PatIds, 1) :
            \E ce \in CrossEdges(gid, pl) : ce[3] = dir /\ {ce[1], ce[2]} = {"lib", "libx"}

(* ------------------------------------------------------------ table (B3) *)
Row(pl, sc) ==
  [patterns |-> pl,
   scenario |-> sc,
   gogarble |-> Text(ListText(pl)),
   effective |-> Text(Gogarble(pl)),
   obfuscate |-> [id \in Ids(sc) |-> ToObf(ById(sc, id), pl)],
   rejected |-> Rejected(sc, pl),
   no_built_selected |-> \A p \in Built(sc) : ~Sel(p, pl),
   nothing_obfuscated |-> \A p \in Built(sc) : ~ToObf(p, pl)]
Table ==
  LET pls == SetToSeq(PatLists)
      singles == SetToSeq(SeqsOfLen(PatIds, 1)) IN
  [packages |-> [sc \in Scenarios |-> [id \in Ids(sc) |->
                    LET p == ById(sc, id) IN [path |-> Text(p.path), fortest |-> Text(p.fortest), name |-> p.name,
                                             files |-> p.files, std |-> p.std, built |-> p.built]]],
   runtime_and_deps |-> {Text(x) : x \in RuntimeAndDeps},
   graphs |-> [gid \in GraphIds |-> Graphs[gid]],
   rows |-> [k \in 1..Len(pls) |-> Row(pls[k], "build")],
   test_rows |-> [k \in 1..Len(singles) |-> Row(singles[k], "test")],
   file_rows |-> [k \in 1..Len(singles) |-> Row(singles[k], "file")]]
ASSUME TableFile = "" \/ JsonSerialize(TableFile, Table)
=============================================================================
