------------------------------- MODULE Linker -------------------------------
(* The patched-linker cache protocol: internal/linker.PatchLinker and the   *)
(* caller's deferred unlock in main.go (toolexec link).                     *)
(*                                                                          *)
(* Shared state (files under GARBLE_CACHE/tool):                            *)
(*   lock   - link.lock (flock), held by at most one process                *)
(*   stamp  - link.version : "none" | "partial" | "old" | "cur"             *)
(*   bin    - link         : "none" | "partial" | "old" | "cur"             *)
(* "old" = written by another garble/Go version; "partial" = a non-atomic   *)
(* write was interrupted (or the file was truncated).                       *)
(*                                                                          *)
(* One action per step of the code; each has a trace event (verif hooks).   *)
(* Environment actions: Kill (kill -9 of a process: lock released, files    *)
(* stay), Damage (cache entry deleted/truncated between builds, C07).       *)
(* Properties: C17 (NeverHalfWritten, Mutex), C18 (same under Kill, and a   *)
(* rerun completes), C07 (same under Damage).                               *)
EXTENDS Naturals, FiniteSets, TLC

CONSTANTS
  Procs,       \* link processes (one per `garble toolexec link`)
  TmpRename,   \* BOOLEAN: PatchLinker builds to link.tmp (removed first) and renames it into place, as the
               \* code does since the fix of finding F18; FALSE = the code before: `go build -o link` in place
  CopyMode,    \* BOOLEAN: `go build -o` copies (cross-device TMPDIR) instead of renaming
  MaxKills,    \* bound on Kill actions
  MaxDamage,   \* bound on Damage actions
  InitStates   \* set of <<stamp, bin>> initial cache states

VARIABLES lock, stamp, bin, tmp, pc, used, kills, damages
vars == <<lock, stamp, bin, tmp, pc, used, kills, damages>>

FileStates == {"none", "partial", "old", "cur"}
PCs == {"idle", "wait", "locked", "patch", "build", "building", "skipping", "built", "renamed", "stamping", "run", "ran", "done"}
InCS(p) == pc[p] \in {"locked", "patch", "build", "building", "skipping", "built", "renamed", "stamping", "run", "ran"}

TypeOK == /\ lock \in Procs \cup {"none"}
          /\ stamp \in FileStates /\ bin \in FileStates /\ tmp \in FileStates
          /\ pc \in [Procs -> PCs]
          /\ used \in [Procs -> FileStates \cup {"-"}]

Init == /\ lock = "none"
        /\ \E s \in InitStates : stamp = s[1] /\ bin = s[2]
        /\ tmp = "none"
        /\ pc = [p \in Procs |-> "idle"]
        /\ used = [p \in Procs |-> "-"]
        /\ kills = 0 /\ damages = 0

Start(p) == /\ pc[p] = "idle"
            /\ pc' = [pc EXCEPT ![p] = "wait"]
            /\ UNCHANGED <<lock, stamp, bin, tmp, used, kills, damages>>

(* mutex.Lock(): flock on link.lock *)
Lock(p) == /\ pc[p] = "wait" /\ lock = "none"
           /\ lock' = p
           /\ pc' = [pc EXCEPT ![p] = "locked"]
           /\ UNCHANGED <<stamp, bin, tmp, used, kills, damages>>

(* checkVersion + fileExists: reuse iff the stamp is current and vouches for the  *)
(* file that is there.  The stamp records the size of the binary it was written  *)
(* for (fix of finding F11), so a current stamp next to a missing, truncated or  *)
(* foreign binary does not match.  Before that fix the test was                  *)
(*   stamp = "cur" /\ bin # "none"   and TLC reported NeverHalfWritten violated   *)
(* under Damage (stamp = "cur", bin = "partial").                                *)
Reuse == stamp = "cur" /\ bin = "cur"
Check(p) == /\ pc[p] = "locked"
            /\ pc' = [pc EXCEPT ![p] = IF Reuse THEN "run" ELSE "patch"]
            /\ UNCHANGED <<lock, stamp, bin, tmp, used, kills, damages>>

(* applyPatches: private temp dir, no shared state *)
Patch(p) == /\ pc[p] = "patch"
            /\ pc' = [pc EXCEPT ![p] = "build"]
            /\ UNCHANGED <<lock, stamp, bin, tmp, used, kills, damages>>

(* buildLinker: `go build -o <target> cmd/link`.  cmd/go first reads the build ID at  *)
(* the start of an existing target: a file that carries the ID of what it is about to *)
(* build - the current linker, or a copy of it that was cut short - is "up to date"   *)
(* and is left alone; anything else is replaced, by rename, or written in place when  *)
(* cmd/go has to copy (its work dir and the target are on different file systems).    *)
(* Since the fix of F18 the target is link.tmp, which PatchLinker removes first, and  *)
(* the result is renamed over link; before, the target was link itself.               *)
UpToDateForGo(f) == f \in {"cur", "partial"}
BuildStart(p) ==
  /\ pc[p] = "build"
  /\ IF TmpRename
       THEN /\ tmp' = IF CopyMode THEN "partial" ELSE "none"      \* os.Remove(link.tmp); go build -o link.tmp
            /\ pc' = [pc EXCEPT ![p] = "building"]
            /\ UNCHANGED bin
       ELSE /\ IF UpToDateForGo(bin)
                 THEN pc' = [pc EXCEPT ![p] = "skipping"] /\ UNCHANGED bin
                 ELSE pc' = [pc EXCEPT ![p] = "building"] /\ bin' = IF CopyMode THEN "partial" ELSE bin
            /\ UNCHANGED tmp
  /\ UNCHANGED <<lock, stamp, used, kills, damages>>
BuildDone(p) ==
  /\ pc[p] \in {"building", "skipping"}
  /\ IF TmpRename THEN tmp' = "cur" /\ UNCHANGED bin
     ELSE (bin' = IF pc[p] = "skipping" THEN bin ELSE "cur") /\ UNCHANGED tmp
  /\ pc' = [pc EXCEPT ![p] = "built"]
  /\ UNCHANGED <<lock, stamp, used, kills, damages>>
(* os.Rename(link.tmp, link): atomic *)
Rename(p) ==
  /\ TmpRename /\ pc[p] = "built"
  /\ bin' = tmp /\ tmp' = "none"
  /\ pc' = [pc EXCEPT ![p] = "renamed"]
  /\ UNCHANGED <<lock, stamp, used, kills, damages>>

(* writeVersion: os.WriteFile is truncate-then-write *)
StampStart(p) == /\ pc[p] = (IF TmpRename THEN "renamed" ELSE "built")
                 /\ stamp' = "partial"
                 /\ pc' = [pc EXCEPT ![p] = "stamping"]
                 /\ UNCHANGED <<lock, bin, tmp, used, kills, damages>>
StampDone(p) == /\ pc[p] = "stamping"
                /\ stamp' = "cur"
                /\ pc' = [pc EXCEPT ![p] = "run"]
                /\ UNCHANGED <<lock, bin, tmp, used, kills, damages>>

(* the caller executes the returned path as the linker, still holding the lock *)
RunLinker(p) == /\ pc[p] = "run"
                /\ used' = [used EXCEPT ![p] = bin]
                /\ pc' = [pc EXCEPT ![p] = "ran"]
                /\ UNCHANGED <<lock, stamp, bin, tmp, kills, damages>>

(* deferred unlock() in main.go *)
Unlock(p) == /\ pc[p] = "ran"
             /\ lock' = "none"
             /\ pc' = [pc EXCEPT ![p] = "done"]
             /\ UNCHANGED <<stamp, bin, tmp, used, kills, damages>>

(* kill -9: the process disappears, the kernel drops its flock, files stay;  *)
(* the user reruns the same build (pc back to idle)                          *)
Kill(p) == /\ kills < MaxKills
           /\ pc[p] \notin {"idle", "done"}
           /\ kills' = kills + 1
           /\ lock' = IF lock = p THEN "none" ELSE lock
           /\ pc' = [pc EXCEPT ![p] = "idle"]
           /\ used' = [used EXCEPT ![p] = "-"]
           /\ UNCHANGED <<stamp, bin, tmp, damages>>

(* C07 faults: an entry is deleted or truncated while no build is running *)
Quiescent == \A p \in Procs : pc[p] \in {"idle", "done"}
Damage == /\ damages < MaxDamage /\ Quiescent
          /\ damages' = damages + 1
          /\ UNCHANGED tmp
          /\ \/ (stamp' \in {"none", "partial"} /\ bin' = bin)
             \/ (bin' \in {"none", "partial"} /\ stamp' = stamp)
             \/ (stamp' = "none" /\ bin' = "none")
          /\ pc' = [p \in Procs |-> "idle"]      \* the next build starts afresh
          /\ used' = [p \in Procs |-> "-"]
          /\ UNCHANGED <<lock, kills>>

Step(p) == \/ Start(p) \/ Lock(p) \/ Check(p) \/ Patch(p) \/ BuildStart(p) \/ BuildDone(p) \/ Rename(p)
           \/ StampStart(p) \/ StampDone(p) \/ RunLinker(p) \/ Unlock(p)
Next == (\E p \in Procs : Step(p) \/ Kill(p)) \/ Damage

Fairness == \A p \in Procs : WF_vars(Step(p))
Spec == Init /\ [][Next]_vars /\ Fairness

(* ------------------------------------------------------------------ properties *)
NeverHalfWritten == \A p \in Procs : used[p] \in {"-", "cur"}
Mutex == \A p, q \in Procs : (InCS(p) /\ InCS(q)) => p = q
LockHolder == \A p \in Procs : InCS(p) <=> lock = p
(* a completed stamp never vouches for anything but the current linker *)
StampImpliesBin == (stamp = "cur" /\ Quiescent) => bin = "cur"
AllDone == <>(\A p \in Procs : pc[p] = "done")

View == <<lock, stamp, bin, tmp, pc, used>>

(* behaviour export for replay (B2): the file-system states a kill can leave behind; the *)
(* check concretises each one in a real GARBLE_CACHE/tool directory and reruns the build *)
EmitPostKill == (kills > 0 /\ lock = "none" /\ Quiescent) => PrintT(<<"POSTKILL", stamp, bin, tmp>>)

(* initial cache states for the configs (cfg files cannot write tuples) *)
InitBuilt == {<<"none", "none">>, <<"cur", "cur">>, <<"old", "old">>, <<"none", "old">>, <<"old", "none">>}
InitWarm == {<<"cur", "cur">>}
InitAny == FileStates \X FileStates
=============================================================================
