----------------------------- MODULE NameHash -----------------------------
(* Post-processing of hashed names: transcription of hashWithCustomSalt     *)
(* (hash.go).  The cryptographic part is abstracted: the input of the       *)
(* post-processing is the base64url text of the first 9 checksum bytes      *)
(* (12 symbols), the tenth checksum byte (which picks the length), and the  *)
(* class of the original name.  Property C16.                               *)
EXTENDS Naturals, Sequences, FiniteSets, TLC, Json

Alphabet == <<"A","B","C","D","E","F","G","H","I","J","K","L","M","N","O","P","Q","R","S","T","U","V","W","X","Y","Z",
              "a","b","c","d","e","f","g","h","i","j","k","l","m","n","o","p","q","r","s","t","u","v","w","x","y","z",
              "0","1","2","3","4","5","6","7","8","9","-","_">>
Sym == 1..64
Upper == 1..26
Lower == 27..52
Digit == 53..62
Dash == 63
Under == 64

Classes == {"exported", "unexported", "notident"}

MinLen == 6
MaxLen == 12
LenOf(b9) == MinLen + (b9 % ((MaxLen - MinLen) + 1))

(* isDigit(b) => b += 'A' - '0'   : digit d becomes the d-th upper-case letter *)
DigitFix(s) == IF s \in Digit THEN s - 52 ELSE s
(* '-' => 'a' at every position *)
DashFix(s) == IF s = Dash THEN 27 ELSE s
(* export fix-up of the first symbol, only for identifiers *)
ExportFix(s, c) ==
  CASE c = "exported"   -> IF s = Under THEN 26 ELSE IF s \in Lower THEN s - 26 ELSE s
    [] c = "unexported" -> IF s \in Upper THEN s + 26 ELSE s
    [] OTHER            -> s

FirstFix(s, c) == ExportFix(DashFix(DigitFix(s)), c)
RestFix(s) == DashFix(s)

(* The result for an abstract input: first symbol f, some other position p  *)
(* holding symbol s (all remaining positions behave like p).                *)
FixedAt(f, p, s, c, i) == IF i = 1 THEN FirstFix(f, c) ELSE RestFix(IF i = p THEN s ELSE 27)

IsLetter(s) == s \in Upper \cup Lower
IdentStart(s) == IsLetter(s) \/ s = Under
IdentPart(s) == IsLetter(s) \/ s \in Digit \/ s = Under

CONSTANT PosSet   \* positions (2..12) explored for the non-first symbol
VARIABLES f, p, s, c, b9
vars == <<f, p, s, c, b9>>

Init == /\ f \in Sym /\ p \in PosSet /\ s \in Sym /\ c \in Classes /\ b9 \in 0..6
Next == UNCHANGED vars
Spec == Init /\ [][Next]_vars

NLen == LenOf(b9)
Out(i) == FixedAt(f, p, s, c, i)

ValidIdent == IdentStart(Out(1)) /\ \A i \in 2..NLen : IdentPart(Out(i))
Len6to12 == NLen \in MinLen..MaxLen
Charset == \A i \in 1..NLen : Out(i) # Dash
ExportPreserved ==
  /\ (c = "exported" => Out(1) \in Upper)
  /\ (c = "unexported" => Out(1) \notin Upper)

(* How many first symbols are merged into one by the fix-ups: at most 4,    *)
(* so the first symbol keeps at least 4 of its 6 bits.                      *)
Preimages(c0, o) == {x \in Sym : FirstFix(x, c0) = o}
InjectiveEnough == \A c0 \in Classes : \A o \in Sym : Cardinality(Preimages(c0, o)) <= 4
RestInjectiveEnough == \A o \in Sym : Cardinality({x \in Sym : RestFix(x) = o}) <= 2

ASSUME InjectiveEnough /\ RestInjectiveEnough

(* Table extraction (B3): the whole finite function, as JSON, for the harness. *)
FirstTable == [c0 \in Classes |-> [x \in Sym |-> Alphabet[FirstFix(x, c0)]]]
RestTable == [x \in Sym |-> Alphabet[RestFix(x)]]
LenTable == [b \in 0..6 |-> LenOf(b)]
Table == [alphabet |-> Alphabet, first |-> FirstTable, rest |-> RestTable, len |-> LenTable]
ASSUME JsonSerialize("namehash_table.json", Table)
=============================================================================
