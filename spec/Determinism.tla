---------------------------- MODULE Determinism ----------------------------
(* Reproducibility of the obfuscation of one package (property C03, the part *)
(* that lives in internal/ctrlflow, internal/ssa2ast and internal/literals). *)
(*                                                                           *)
(* The obfuscator is a pipeline of choice points.  Each choice point takes   *)
(* its value from exactly one of                                             *)
(*   "rnd"     the *math/rand.Rand passed in by transformCompile, seeded     *)
(*             from the package's GarbleActionID or from -seed: the k-th     *)
(*             draw is a function of (seed, k) only;                         *)
(*   "global"  the process-global math/rand source: arbitrary per process;   *)
(*   "map"     the iteration order of a Go map: arbitrary per iteration.     *)
(* and its value may or may not reach the emitted source.  The number of     *)
(* "rnd" draws a step consumes may itself depend on an earlier value (the    *)
(* xor key length drawn from the GLOBAL source decides how many bytes        *)
(* rnd.Read consumes), which shifts every later "rnd" draw.                  *)
(*                                                                           *)
(* Two independent builds of the same inputs run the pipeline; every map     *)
(* iteration is an explicit ArbitraryOrder action, every global draw an      *)
(* explicit ArbitraryGlobal action.  Invariant SameOutput: when both have    *)
(* finished, the emitted token sequences are equal.                          *)
(*                                                                           *)
(* Map iterations and non-passed generators found in the code (the list the  *)
(* check replays; `reach` says whether the order/value can reach the output) *)
(*   cf.varspecs    ssa2ast/func.go:1120-1155  f.Vars -> groupedVar -> specs: grouped in SORTED name order (since the    *)
(*                  fix "emit control-flow variable declarations in a deterministic order"; before: MAP order)   no    *)
(*   cf.varnames    ssa2ast/func.go            names inside one spec: sorted                                         no    *)
(*   tr.packages    ctrlflow/trash.go          ssaProg.AllPackages() (map) -> order of t.pkgFunctions: sorted by path    no [+]  *)
(*   tr.members     ctrlflow/trash.go          p.Members (map) -> order of t.globals and of every pkgFuncs slice: sorted no [+]  *)
(*   tr.vars        ctrlflow/trash.go          vars / groupedCandidates maps -> candidate slices indexed by rnd: sorted  no [+]  *)
(*   tr.generators  ctrlflow/trash.go          valueGenerators (map) -> candidates slice indexed by rnd: sorted          no [+]  *)
(*                  [+] since the fix "generate control-flow trash blocks in a deterministic order"; before: reach      *)
(*   tr.finalize    ctrlflow/trash.go:547      for _, v := range vars: per-element update, order-insensitive         no    *)
(*   hd.xorlen      ctrlflow/hardening.go:78   rnd.Intn = length of secondKey, then rnd.Read(len) (since the fix "draw   *)
(*                  control-flow hardening key sizes from the build's random source"; before: GLOBAL math/rand)  no    *)
(*   hd.tablelen    ctrlflow/hardening.go:152  rnd.Intn = keySize of the delegate table (same fix)                   no    *)
(*   cf.imports     ctrlflow/ctrlflow.go:166   imports map: lookup only, names numbered in first-use order           no    *)
(*   tf.fieldmap    transformer.go:129         for _, tv := range info.Types: builds a map, order-insensitive        no    *)
(*   tf.reflnames   reflect.go (reflectMainPostPatch) sorted keys                                                     no    *)
(*   lit.*          internal/literals: every draw through the passed rnd                                              no    *)
EXTENDS Integers, Sequences, FiniteSets, TLC, Json

CONSTANTS
  Repaired,     \* ids of choice points assumed repaired (sorted before use / drawn from rnd)
  WithCtrlFlow, \* TRUE: the package has //garble:controlflow functions (GARBLE_EXPERIMENTAL_CONTROLFLOW=1)
  WithTrash, WithHardening, WithLiterals,
  ClockSeed,    \* what-if (mutant): rnd is seeded from the clock when -seed is absent
  SortedTrash,     \* TRUE as the code has it since its fix (candidates sorted before the draw); FALSE = before
  SortedVarSpecs,  \* TRUE as the code has it since its fix; FALSE = the code before (what-if)
  GlobalKeySizes,  \* FALSE as the code has it since its fix; TRUE = key sizes from the process-global source (what-if)
  SortedReflNames, \* TRUE as the code has it; FALSE = what-if (mutant): reflectMainPostPatch ranges over the map
  LeaksFile

(* The pipeline: a sequence of steps.  src: where the value comes from; reach: the value is emitted;
   sorted: the code normalises the order before it matters; ndraw: rnd draws consumed (-1 = as many
   as the previous global value says). *)
Step(id, src, reach, ndraw, on) == [id |-> id, src |-> src, reach |-> reach, ndraw |-> ndraw, on |-> on]
Pipeline ==
  << Step("lit.obfuscator",  "rnd",    TRUE,  1, WithLiterals),
     Step("tr.packages",     "map",    ~SortedTrash,  0, WithCtrlFlow /\ WithTrash),
     Step("tr.members",      "map",    ~SortedTrash,  0, WithCtrlFlow /\ WithTrash),
     Step("cf.trashmarkers", "rnd",    TRUE,  1, WithCtrlFlow /\ WithTrash),
     Step("cf.split",        "rnd",    TRUE,  1, WithCtrlFlow),
     Step("cf.junk",         "rnd",    TRUE,  1, WithCtrlFlow),
     Step("cf.flatten",      "rnd",    TRUE,  1, WithCtrlFlow),
     Step("hd.xorlen",       IF GlobalKeySizes THEN "global" ELSE "rnd", TRUE, IF GlobalKeySizes THEN 0 ELSE 1, WithCtrlFlow /\ WithHardening),
     Step("hd.xorread",      "rnd",    TRUE,  IF GlobalKeySizes THEN -1 ELSE 1, WithCtrlFlow /\ WithHardening),
     Step("hd.keys",         "rnd",    TRUE,  1, WithCtrlFlow /\ WithHardening),
     Step("hd.tablelen",     IF GlobalKeySizes THEN "global" ELSE "rnd", TRUE, IF GlobalKeySizes THEN 0 ELSE 1, WithCtrlFlow /\ WithHardening),
     Step("tr.generators",   "map",    ~SortedTrash,  0, WithCtrlFlow /\ WithTrash),
     Step("tr.vars",         "map",    ~SortedTrash,  0, WithCtrlFlow /\ WithTrash),
     Step("tr.pick",         "rnd",    TRUE,  1, WithCtrlFlow /\ WithTrash),
     Step("tr.finalize",     "map",    FALSE, 0, WithCtrlFlow /\ WithTrash),
     Step("cf.varspecs",     "map",    ~SortedVarSpecs, 0, WithCtrlFlow),
     Step("cf.varnames",     "map",    FALSE, 0, WithCtrlFlow),
     Step("cf.imports",      "map",    FALSE, 0, WithCtrlFlow),
     Step("tf.fieldmap",     "map",    FALSE, 0, TRUE),
     Step("tf.reflnames",    "map",    ~SortedReflNames, 0, TRUE),
     Step("lit.values",      "rnd",    TRUE,  1, WithLiterals) >>
N == Len(Pipeline)
Builds == {1, 2}
Arb == {0, 1}                       \* two values are enough to tell "depends" from "does not depend"

(* the k-th draw of the passed generator: a function of (seed, k); with the clock as seed it is
   a function of the build as well *)
Draw(b, k) == IF ClockSeed THEN 100 * b + k ELSE k

VARIABLES pc, out, drawn, lastGlobal
vars == <<pc, out, drawn, lastGlobal>>

Init == /\ pc = [b \in Builds |-> 1]
        /\ out = [b \in Builds |-> <<>>]
        /\ drawn = [b \in Builds |-> 0]
        /\ lastGlobal = [b \in Builds |-> 0]

Cur(b) == Pipeline[pc[b]]
Adv(b) == pc' = [pc EXCEPT ![b] = @ + 1]
Emit(b, s, v) == out' = [out EXCEPT ![b] = IF s.reach THEN Append(@, <<s.id, v>>) ELSE @]

Skip(b) == /\ pc[b] <= N /\ ~Cur(b).on
           /\ Adv(b) /\ UNCHANGED <<out, drawn, lastGlobal>>

(* a draw from the passed generator *)
SeededDraw(b) ==
  /\ pc[b] <= N /\ Cur(b).on /\ Cur(b).src = "rnd"
  /\ LET s == Cur(b)
         n == IF s.ndraw = -1 THEN 1 + lastGlobal[b] ELSE s.ndraw
     IN /\ Emit(b, s, Draw(b, drawn[b] + n))      \* the value of the last draw of the step stands for all of them
        /\ drawn' = [drawn EXCEPT ![b] = @ + n]
  /\ Adv(b) /\ UNCHANGED lastGlobal

(* iterating a Go map: any order, unless the code sorts (or the point is assumed repaired) *)
ArbitraryOrder(b, order) ==
  /\ pc[b] <= N /\ Cur(b).on /\ Cur(b).src = "map"
  /\ LET s == Cur(b) IN Emit(b, s, IF s.id \in Repaired THEN 0 ELSE order)
  /\ Adv(b) /\ UNCHANGED <<drawn, lastGlobal>>

(* a draw from the process-global source *)
ArbitraryGlobal(b, v) ==
  /\ pc[b] <= N /\ Cur(b).on /\ Cur(b).src = "global"
  /\ LET s  == Cur(b)
         vv == IF s.id \in Repaired THEN 0 ELSE v
     IN /\ Emit(b, s, vv)
        /\ lastGlobal' = [lastGlobal EXCEPT ![b] = vv]
        /\ (IF s.id \in Repaired THEN drawn' = [drawn EXCEPT ![b] = @ + 1] ELSE UNCHANGED drawn)
  /\ Adv(b)

(* Symmetry reductions that lose nothing: the two builds are independent processes, so build 2 may
   run after build 1 has finished; and "any two builds agree" is the same as "every build agrees
   with the one whose arbitrary choices are all 0", so build 1 takes 0 everywhere. *)
Turn(b) == IF b = 1 THEN pc[1] <= N ELSE pc[1] = N + 1
Next == \E b \in Builds : /\ Turn(b)
                          /\ \/ Skip(b) \/ SeededDraw(b)
                             \/ \E o \in Arb : (b = 1 => o = 0) /\ ArbitraryOrder(b, o)
                             \/ \E v \in Arb : (b = 1 => v = 0) /\ ArbitraryGlobal(b, v)
Spec == Init /\ [][Next]_vars

Done == \A b \in Builds : pc[b] = N + 1
SameOutput == Done => out[1] = out[2]
(* the generator is consumed identically: otherwise later packages' literals would shift too *)
SameDrawCount == Done => drawn[1] = drawn[2]

(* the choice points whose arbitrary value reaches the output under this configuration:
   the leads that the check replays on the real code *)
Leaks == {Pipeline[i].id : i \in {j \in 1..N : /\ Pipeline[j].on /\ Pipeline[j].src \in {"map", "global"}
                                               /\ Pipeline[j].reach /\ Pipeline[j].id \notin Repaired}}
ASSUME LeaksFile = "" \/ JsonSerialize(LeaksFile, [leaks |-> Leaks, clock |-> ClockSeed])
=============================================================================
