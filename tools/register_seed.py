#!/usr/bin/env python3
"""usage: register_seed.py <name e.g. C06m1> <property> <agent out dir> "<what it needs to manifest>"
Copies a confirmed seeded change into /verif/seeded/<name>/ (patch.diff, demo, NOTES.md) and writes meta.json
from the confirmation log (/dev/shm/mut/confirm.txt) and the detection log (/dev/shm/mut/summary.txt)."""
import json, re, shutil, sys
from pathlib import Path
name, prop, src, needs = sys.argv[1:5]
dst = Path("/verif/seeded") / name
if dst.exists():
    shutil.rmtree(dst)
shutil.copytree(src, dst, ignore=shutil.ignore_patterns("*.log"))
conf = [l.strip() for l in open("/dev/shm/mut/confirm.txt") if l.split()[1:2] == [name]] if Path("/dev/shm/mut/confirm.txt").exists() else []
det = [l.strip() for l in open("/dev/shm/mut/summary.txt") if l.split()[1:2] == [name]] if Path("/dev/shm/mut/summary.txt").exists() else []
meta = {
    "name": name, "property": prop, "needs_to_manifest": needs,
    "files": sorted(str(p.relative_to(dst)) for p in dst.rglob("*") if p.is_file()),
    "confirmation": {
        "what_was_run": "scratch worktree of /repo HEAD + patch: go build; demo.sh on /repo (clean) and on the patched worktree; "
                        "existing suite: see suite_run",
        "result": conf[-1] if conf else "pending",
    },
    "detection": det,
}
old = dst / "meta.json"
(dst / "meta.json").write_text(json.dumps(meta, indent=1) + "\n")
print(json.dumps(meta, indent=1))
