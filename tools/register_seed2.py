#!/usr/bin/env python3
"""usage: register_seed2.py <name> <property> <agent out dir> "<what it needs to manifest>" [prog dirs...]
Copies patch.diff, demo.sh, NOTES.md and the named program directories (small sources only) of a seeded change into
/verif/seeded/<name>/ and writes meta.json with the CONFIRM line of seeded/confirm_log.txt."""
import json, shutil, sys
from pathlib import Path
name, prop, src, needs = sys.argv[1:5]
src = Path(src)
dst = Path("/verif/seeded") / name
if dst.exists():
    shutil.rmtree(dst)
dst.mkdir(parents=True)
for f in ("patch.diff", "demo.sh", "NOTES.md"):
    if (src / f).exists():
        shutil.copy(src / f, dst / f)
for d in sys.argv[5:]:
    if (src / d).is_dir():
        shutil.copytree(src / d, dst / d, ignore=lambda p, names: [n for n in names if (Path(p) / n).is_file() and (Path(p) / n).stat().st_size > 200_000])
log = Path("/verif/seeded/confirm_log.txt")
conf = [l.strip() for l in log.read_text().splitlines() if l.split()[1:2] == [name]] if log.exists() else []
meta = {"name": name, "property": prop, "needs_to_manifest": needs,
        "files": sorted(str(p.relative_to(dst)) for p in dst.rglob("*") if p.is_file()),
        "confirmation": {"what_was_run": "tools/confirm_seed.sh: scratch worktree of /repo HEAD; demo.sh on the clean worktree (must exit 0); patch applied; "
                                         "go build; demo.sh on the patched worktree (must exit 1). Existing tests: the author ran the scripts that exercise "
                                         "the touched code (listed in NOTES.md); see DESIGN.md 12.6 for the suite runs done here",
                         "result": conf[-1] if conf else "pending"}}
(dst / "meta.json").write_text(json.dumps(meta, indent=1) + "\n")
print(name, meta["confirmation"]["result"])
