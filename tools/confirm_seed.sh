#!/bin/sh
# usage: tools/confirm_seed.sh <name> <dir with patch.diff and demo.sh>
# Confirms a seeded change in a scratch worktree of /repo's HEAD: the demonstration passes on the clean tree,
# the patch applies and builds, the demonstration fails on the patched tree. One CONFIRM line is appended to
# seeded/confirm_log.txt. The worktree is removed afterwards; nothing is applied to /repo.
name="$1"; dir="$(cd "$2" && pwd)"
cd "$(dirname "$0")/.." || exit 1
log="$(pwd)/seeded/confirm_log.txt"
wt=/tmp/seed/cf-$name
export PATH=/root/go/pkg/mod/golang.org/toolchain@v0.0.1-go1.26.2.linux-amd64/bin:$PATH
export GOTOOLCHAIN=local GOFLAGS=-mod=mod GOPROXY=off GOSUMDB=off
git -C /repo worktree remove --force "$wt" >/dev/null 2>&1
git -C /repo worktree add --detach "$wt" HEAD >/dev/null 2>&1 || { echo "$name: cannot create worktree"; exit 2; }
t0=$(date +%s)
mkdir -p /dev/shm/mut
sh -c "cd '$dir' && bash ./demo.sh '$wt'" > /dev/shm/mut/confirm-$name-clean.log 2>&1; clean=$?
if ! git -C "$wt" apply "$dir/patch.diff" 2>/dev/null && ! git -C "$wt" apply -3 "$dir/patch.diff" 2>/dev/null; then
  echo "CONFIRM $name patch-does-not-apply" | tee -a "$log"; git -C /repo worktree remove --force "$wt"; exit 2
fi
(cd "$wt" && go build -o /dev/null . ) > /dev/shm/mut/confirm-$name-build.log 2>&1; build=$?
sh -c "cd '$dir' && bash ./demo.sh '$wt'" > /dev/shm/mut/confirm-$name-patched.log 2>&1; patched=$?
t1=$(date +%s)
echo "CONFIRM $name repo=$(git -C /repo rev-parse --short HEAD) build=$build demo_clean=$clean demo_patched=$patched wall=$((t1-t0))s" | tee -a "$log"
git -C /repo worktree remove --force "$wt"
