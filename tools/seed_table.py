#!/usr/bin/env python3
"""Prints the markdown table of seeded changes (DESIGN.md 12.6) from seeded/*/meta.json and the evaluation log,
and stores the evaluation lines in each meta.json."""
import json, re, collections
from pathlib import Path
V = Path(__file__).resolve().parent.parent
log = V / "seeded" / "eval_log.txt"
det = collections.OrderedDict()
if log.exists():
    for l in log.read_text().splitlines():
        m = re.match(r"MUTANT (\S+) check=(\S+)(?: verif=\S+)? rc=(\d+) wall=(\d+)s viol=(\d+)", l)
        if m:
            det.setdefault(m.group(1), []).append({"check": m.group(2), "rc": int(m.group(3)), "violations": int(m.group(5))})
notes = json.loads((V / "seeded" / "notes.json").read_text()) if (V / "seeded" / "notes.json").exists() else {}
rows = []
for d in sorted((V / "seeded").iterdir()):
    mp = d / "meta.json"
    if not mp.exists():
        continue
    meta = json.loads(mp.read_text())
    runs = det.get(meta["name"], meta.get("detection_runs", []))
    if runs:
        meta["detection_runs"] = runs
    meta["note"] = notes.get(meta["name"], meta.get("note", ""))
    mp.write_text(json.dumps(meta, indent=1) + "\n")
    caught = [r for r in runs if r["rc"] == 1]
    missed = [r for r in runs if r["rc"] == 0]
    if caught:
        verdict = "caught by " + ", ".join(sorted({r["check"] for r in caught})) + (" (after strengthening)" if missed else "")
    elif runs:
        verdict = "not caught by " + ", ".join(sorted({r["check"] for r in runs}))
    else:
        verdict = "not evaluated"
    rows.append(f"| {meta['name']} | {meta['property']} | {meta['needs_to_manifest']} | {verdict} | {meta['note']} |")
print("| change | property | what it needs to manifest | result | note |\n|---|---|---|---|---|")
print("\n".join(rows))
