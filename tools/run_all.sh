#!/bin/sh
# usage: tools/run_all.sh <tier> <seed> <id>...   (sequential; logs under /dev/shm/runs)
tier="$1"; seed="$2"; shift 2
cd "$(dirname "$0")/.." || exit 1
mkdir -p /dev/shm/runs
for id in "$@"; do
  log=/dev/shm/runs/$id.$tier.$seed.log
  t0=$(date +%s)
  bin/check "$id" --tier "$tier" --seed "$seed" > "$log" 2>&1
  rc=$?
  t1=$(date +%s)
  echo "$id tier=$tier seed=$seed rc=$rc wall=$((t1-t0))s viol=$(grep -c '^VIOLATION' "$log") known=$(grep -c '^KNOWN-FINDING' "$log") mm=$(grep -c 'MODEL-MISMATCH' "$log")" | tee -a /dev/shm/runs/summary.txt
done
