#!/bin/sh
# Sequential quick pass over all claimed properties on /repo's working tree; rewrites evidence/<id>.json.
# usage: tools/final_pass.sh [ids...]
cd "$(dirname "$0")/.." || exit 1
ids="$*"
[ -n "$ids" ] || ids="C01 C02 C03 C04 C05 C06 C07 C08 C09 C10 C11 C12 C13 C14 C15 C16 C17 C18 C19 C20"
mkdir -p /dev/shm/final
for id in $ids; do
  t0=$(date +%s)
  VERIF_SEED=1 VERIF_TIER=quick bin/check "$id" --tier quick > /dev/shm/final/$id.log 2>&1
  rc=$?
  t1=$(date +%s)
  echo "FINAL $id rc=$rc wall=$((t1-t0))s viol=$(grep -c '^VIOLATION' /dev/shm/final/$id.log) known=$(grep -c '^KNOWN-FINDING' /dev/shm/final/$id.log) mm=$(grep -c 'MODEL-MISMATCH' /dev/shm/final/$id.log)" | tee -a /dev/shm/final/summary.txt
done
