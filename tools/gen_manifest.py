#!/usr/bin/env python3
"""Generate /verif/MANIFEST.json from tools/manifest_src.json (one place to edit)."""
import json, subprocess
from pathlib import Path
V = Path(__file__).resolve().parent.parent
src = json.loads((V / "tools" / "manifest_src.json").read_text())
hooks = subprocess.run(["git", "-C", "/repo", "log", "--format=%H %s"], capture_output=True, text=True).stdout.splitlines()
hook_commits = [l.split()[0] for l in hooks if l.split(" ", 1)[1].startswith("verif:")]
checks = []
for c in src["checks"]:
    pid = c["property_id"]
    checks.append({
        "property_id": pid,
        "quick_cmd": f"bin/check {pid} --tier quick",
        "thorough_cmd": f"bin/check {pid} --tier thorough",
        "evidence_file": f"evidence/{pid}.json",
        "replay_cmd_template": f"bin/check {pid} --replay {{path}}",
        "engine": c.get("engine", "tlc+harness"),
        "level_claimed": {"category": c.get("category", "model_checking"), "text": c["text"], "design_ref": c.get("design_ref", "DESIGN.md section 8")},
        "level_note": c["note"],
        "technique": c["technique"],
    })
claimed = {c["property_id"] for c in checks}
props = [json.loads(l)["id"] for l in (V / "properties.jsonl").read_text().splitlines() if l.strip()]
na = [{"property_id": p, "reason": src["not_applicable"].get(p, "not yet implemented in this round; design in DESIGN.md section 8")} for p in props if p not in claimed]
m = {
    "version": 1,
    "setup_cmd": "bin/setup",
    "hooks": {
        "guard": "verif",
        "enable": "go build -tags verif (vf.core.build_garble); trace via GARBLE_VERIF_TRACE, gates via GARBLE_VERIF_GATE, hidden `garble verif` sub-command",
        "baseline_off_cmd": "cd /repo && go test -mod=mod -vet=off -count=1 -timeout 40m ./...",
        "source_commits": list(reversed(hook_commits)),
        "add_only": True,
    },
    "engines": src["engines"],
    "checks": checks,
    "notes": src["notes"],
    "not_applicable": na,
}
(V / "MANIFEST.json").write_text(json.dumps(m, indent=1) + "\n")
print("claimed:", sorted(claimed), "not claimed:", [x["property_id"] for x in na])
