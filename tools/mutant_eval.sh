#!/bin/sh
# usage: tools/mutant_eval.sh <name> <patch.diff> <check id>...
# Applies the patch to a scratch worktree of /repo's HEAD, runs the given checks (quick tier) against it
# through VERIF_REPO, prints one line per check, removes the worktree.
name="$1"; patch="$2"; shift 2
cd "$(dirname "$0")/.." || exit 1
wt=/tmp/seed/ev-$name
out=/dev/shm/mut/$name
git -C /repo worktree remove --force "$wt" >/dev/null 2>&1
git -C /repo worktree add --detach "$wt" HEAD >/dev/null 2>&1 || { echo "$name: cannot create worktree"; exit 2; }
if ! git -C "$wt" apply "$patch" 2>/dev/null && ! git -C "$wt" apply -3 "$patch" 2>/dev/null; then
  echo "$name: patch does not apply"; git -C /repo worktree remove --force "$wt"; exit 2
fi
mkdir -p "$out"
evlog="$(pwd)/seeded/eval_log.txt"
rev=$(git rev-parse --short HEAD)
for id in "$@"; do
  t0=$(date +%s)
  VERIF_REPO="$wt" VERIF_OUT="$out" bin/check "$id" --tier "${MUT_TIER:-quick}" --seed "${MUT_SEED:-1}" > "$out/$id.log" 2>&1
  rc=$?
  t1=$(date +%s)
  echo "MUTANT $name check=$id verif=$rev rc=$rc wall=$((t1-t0))s viol=$(grep -c '^VIOLATION' "$out/$id.log") known=$(grep -c '^KNOWN-FINDING' "$out/$id.log") mm=$(grep -c 'MODEL-MISMATCH' "$out/$id.log")" | tee -a /dev/shm/mut/summary.txt >> "$evlog"; tail -1 "$evlog"
done
git -C /repo worktree remove --force "$wt"
